#!/bin/bash
# Offline setup: third-party helpers for the harness go to /verif/.deps (never into /venv or /repo).
set -e
HERE="$(cd "$(dirname "${BASH_SOURCE[0]}")" && pwd)"
cd "$HERE"
PY="${VERIF_PYTHON:-/venv/bin/python}"
WH=/opt/veriftools/wheels
mkdir -p .deps
export PIP_NO_INDEX=1
"$PY" -m pip install --quiet --no-index --find-links "$WH" --target .deps --upgrade hypothesis jsonschema atheris 2>&1 | tail -3 || true
PYTHONPATH="$HERE/.deps" "$PY" -c "import hypothesis, jsonschema; print('deps ok', hypothesis.__version__)"
