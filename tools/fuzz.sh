#!/bin/bash
# Longer stand-alone coverage-guided campaigns (atheris / libFuzzer). The registered thorough tiers of C01/C02/C15/C06 run a
# bounded campaign themselves (vf/runner.py: run_fuzz); this script is for hours-long runs. A crash leaves $FUZZ_OUT/failing-<Cxx>.json, replayable with ./check <Cxx> --replay.
# usage: tools/fuzz.sh [runs-per-shard] [shards] [seed]
RUNS="${1:-50000}"; SHARDS="${2:-8}"; SEED="${3:-1}"
cd "$(dirname "$0")/.."
export WELL_ID_DLISWRITER_VERIF=1 PYTHONHASHSEED=0 PYTHONPATH="${VERIF_REPO:-/repo}/src:$PWD:$PWD/.deps"
export FUZZ_OUT="${FUZZ_OUT:-$(mktemp -d /tmp/verif-fuzz-XXXX)}"
for t in fuzz_segments fuzz_struct; do
  for i in $(seq 1 $SHARDS); do
    mkdir -p "$FUZZ_OUT/$t-$i"
    ( /venv/bin/python vf/fuzz/$t.py -runs=$RUNS -seed=$((SEED*100+i)) "$FUZZ_OUT/$t-$i" > "$FUZZ_OUT/$t-$i.log" 2>&1; echo "$t shard $i exit=$?" ) &
  done
done
wait
ls "$FUZZ_OUT"/failing-*.json 2>/dev/null && exit 1
echo "no failing input; logs in $FUZZ_OUT"
