#!/bin/bash
# usage: tools/seed_take.sh <delivery dir> <label> [extra check ids...]  - registers a sub-agent's delivery under the next free letter
# and starts its confirmation (suite + demonstration, scratch copy) in the background; prints the new id.
D="$1"; X="$2"; shift 2
for L in A B C D E F G H I J K L M N O P; do [ -d /verif/seeded/$X-$L ] || break; done
ID=$X-$L
export SEED_ROUND_TEXT="${SEED_ROUND_TEXT:-independent sub-agent (sixth round: given the property text, its own scratch worktree and abridged summaries of all earlier seeded changes for this property, not to be repeated)}"
/venv/bin/python /verif/tools/seed_add.py "$D" "$X" "$ID" "$X" "$@" >/dev/null
true
echo $ID
