#!/usr/bin/env python3
"""Register a sub-agent's delivery as seeded/<new id>/ (patch.diff, demo.py, meta.json skeleton).
usage: tools/seed_add.py <dir with patch_X.diff demo_X.py meta.json> <X> <new id> <check ids...>
Afterwards: tools/confirm_seeded.sh <new id>  and  tools/seed_recheck.py <new id>  fill in the confirmation and results."""
import json, os, shutil, sys
src, X, sid, checks = sys.argv[1], sys.argv[2], sys.argv[3], sys.argv[4:]
dst = f'/verif/seeded/{sid}'
os.makedirs(dst, exist_ok=True)
shutil.copy(f'{src}/patch_{X}.diff', f'{dst}/patch.diff')
shutil.copy(f'{src}/demo_{X}.py', f'{dst}/demo.py')
am = json.load(open(f'{src}/meta.json')).get(X, {})
meta = {'id': sid, 'property': sid.split('-')[0], 'summary': am.get('summary'), 'needs_to_manifest': am.get('needs_to_manifest'),
        'files': am.get('files'),
        'written_by': os.environ.get('SEED_ROUND_TEXT') or 'independent sub-agent (second round: given the property text, its own scratch worktree and the '
                      'summaries of the two earlier seeded changes for this property, to avoid repeats)',
        'confirmed': {'how': f'tools/confirm_seeded.sh {sid} (demonstration with and without the patch and the unedited '
                             f'475-test suite, on a scratch copy of /repo HEAD); tools/seed_recheck.py {sid} (registered '
                             f'quick checks with the patch applied to /repo, undone afterwards)'},
        'checks_run': {c: {} for c in checks}, 'caught_by': []}
json.dump(meta, open(f'{dst}/meta.json', 'w'), indent=1)
print('added', sid)
