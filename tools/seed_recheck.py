#!/usr/bin/env python3
"""Re-run the registered checks named in seeded/<id>/meta.json against /repo HEAD + that patch and refresh meta.json.

usage: tools/seed_recheck.py [id ...]      (default: all)   - uses /tmp/seeded_confirm/<id>.txt (tools/confirm_seeded.sh)
The patch is applied to /repo's working tree (git apply) and undone straight afterwards (git checkout -- .).
"""
import glob
import json
import os
import re
import subprocess
import sys

MERGE_ONLY = '--merge-only' in sys.argv      # only copy the confirmation results (tools/confirm_seeded.sh) into meta.json
sys.argv = [a for a in sys.argv if a != '--merge-only']
ids = sys.argv[1:] or sorted(os.path.basename(os.path.dirname(p)) for p in glob.glob('/verif/seeded/*/meta.json'))
head = subprocess.run(['git', '-C', '/repo', 'log', '--format=%h', '-1'], capture_output=True, text=True).stdout.strip()
for sid in ids:
    d = f'/verif/seeded/{sid}'
    meta = json.load(open(f'{d}/meta.json'))
    checks = sorted(meta.get('checks_run') or [meta['property']])
    if MERGE_ONLY:
        conf = f'/tmp/seeded_confirm/{sid}.txt'
        line = open(conf).read().strip()
        m = re.search(r"demo_pristine=(\d+) demo_patched=(\d+) suite=\[(.*)\]", line)
        meta['confirmed'].update({'demo_exit_on_pristine_tree': int(m.group(1)), 'demo_exit_with_patch': int(m.group(2)),
                                  'suite_with_patch': m.group(3), 'confirmed_at_repo_head': re.search(r"head=(\w+)", line)[1]})
        json.dump(meta, open(f'{d}/meta.json', 'w'), indent=1)
        print(sid, 'merged', m.group(3))
        continue
    scratch = os.environ.get('SEED_SCRATCH')     # SEED_SCRATCH=1: scratch worktree + VERIF_REPO, /repo is not touched
    target = '/repo'
    if scratch:
        target = f'/tmp/mut/rc_{sid}'
        subprocess.run(['git', '-C', '/repo', 'worktree', 'add', '-q', '--detach', target, 'HEAD'], check=True)
    else:
        assert subprocess.run(['git', '-C', '/repo', 'status', '--short'], capture_output=True, text=True).stdout.strip() == ''
    subprocess.run(['git', '-C', target, 'apply', f'{d}/patch.diff'], check=True)
    results = {}
    try:
        for c in checks:
            p = subprocess.run(['./check', c, '--tier', 'quick', '--no-evidence'], cwd='/verif', capture_output=True,
                               text=True, env=dict(os.environ, VERIF_SEED='0', VERIF_REPO=target))
            sigs = re.findall(r"signature: (\S+)", p.stdout)
            results[c] = {'exit': p.returncode, 'signatures': sigs[:6],
                          'summary': p.stdout.strip().splitlines()[-1][:200] if p.stdout.strip() else ''}
    finally:
        if scratch:
            subprocess.run(['git', '-C', '/repo', 'worktree', 'remove', '--force', target])
        else:
            subprocess.run(['git', '-C', '/repo', 'checkout', '--', '.'], check=True)
    meta['checks_run'] = results
    meta['caught_by'] = sorted(c for c, r in results.items() if r['exit'] == 1)
    meta['repo_head_when_checked'] = head
    conf = f'/tmp/seeded_confirm/{sid}.txt'
    if os.path.exists(conf):
        line = open(conf).read().strip()
        m = re.search(r"demo_pristine=(\d+) demo_patched=(\d+) suite=\[(.*)\]", line)
        if m:
            meta['confirmed'].update({'demo_exit_on_pristine_tree': int(m.group(1)), 'demo_exit_with_patch': int(m.group(2)),
                                      'suite_with_patch': m.group(3),
                                      'confirmed_at_repo_head': (re.search(r"head=(\w+)", line) or [None, head])[1]})
    json.dump(meta, open(f'{d}/meta.json', 'w'), indent=1)
    print(sid, 'caught_by', meta['caught_by'], meta['confirmed'].get('suite_with_patch'))
