#!/bin/bash
# usage: tools/eval_mutant.sh <patch file> <check ids...>
# applies the patch to /repo's working tree, runs the given checks (quick, no evidence rewrite), undoes the patch.
PATCH="$1"; shift
cd "$(dirname "$0")/.."
git -C /repo status --short | grep -q . && { echo "/repo not clean"; exit 2; }
git -C /repo apply "$PATCH" || { echo "patch does not apply"; exit 2; }
trap 'git -C /repo checkout -- . ' EXIT
for P in "$@"; do
  OUT=$(VERIF_SEED=${VERIF_SEED:-0} ./check $P --tier ${TIER:-quick} --no-evidence 2>&1); RC=$?
  echo "$P rc=$RC $(echo "$OUT" | tail -1 | cut -c1-140)"
  echo "$OUT" | grep "signature:" | cut -c1-220 | head -4
done
