#!/usr/bin/env python3
"""Run, for every seeded change, the checks that caught it at seed 0 again at another seed (scratch worktree of /repo
HEAD + patch, VERIF_REPO; /repo itself is not touched).   usage: tools/seed_sweep.py <seed> [id ...]
Prints one line per (id, check) and a summary of seed-dependent catches."""
import glob, json, os, subprocess, sys
from concurrent.futures import ThreadPoolExecutor

seed = sys.argv[1]
ids = sys.argv[2:] or sorted(os.path.basename(os.path.dirname(p)) for p in glob.glob('/verif/seeded/*/meta.json'))
PAR = int(os.environ.get('SWEEP_PAR', '2'))


def one(sid):
    meta = json.load(open(f'/verif/seeded/{sid}/meta.json'))
    wt = f'/tmp/mut/sweep_{sid}'
    subprocess.run(['git', '-C', '/repo', 'worktree', 'add', '-q', '--detach', wt, 'HEAD'], check=True)
    out = []
    try:
        if subprocess.run(['git', '-C', wt, 'apply', f'/verif/seeded/{sid}/patch.diff']).returncode != 0:
            return [(sid, 'PATCH-DOES-NOT-APPLY', 2)]
        for c in meta['caught_by']:
            p = subprocess.run(['./check', c, '--tier', 'quick', '--no-evidence'], cwd='/verif', capture_output=True,
                               text=True, env=dict(os.environ, VERIF_SEED=seed, VERIF_REPO=wt))
            out.append((sid, c, p.returncode))
    finally:
        subprocess.run(['git', '-C', '/repo', 'worktree', 'remove', '--force', wt])
    return out


missed = []
with ThreadPoolExecutor(PAR) as ex:
    for res in ex.map(one, ids):
        for sid, c, rc in res:
            print(sid, c, 'rc=%d' % rc, flush=True)
        if res and all(rc != 1 for _, _, rc in res):
            missed.append(res[0][0])
print('NOT CAUGHT AT SEED', seed, ':', missed)
