#!/bin/bash
# usage: tools/verify_mutant.sh <Cxx> <A|B> [check ids...]   (works in the sub-agent's scratch worktree ${MUT_DIR:-/tmp/mut}/<Cxx>)
# 1 demo passes on the pristine worktree  2 patch applies  3 demo fails with it  4 the 475-test suite passes with it
# 5 the given checks (default: the property's own) are run against the patched worktree via VERIF_REPO
P="$1"; X="$2"; shift 2
W=${MUT_DIR:-/tmp/mut}/$P; LOG=$W/verify_$X.log
CHECKS="${@:-$P}"
cd $W || exit 2
{
git checkout -q -- src
echo "== demo on pristine worktree"; PYTHONPATH=$W/src timeout 600 /venv/bin/python demo_$X.py >/dev/null 2>&1; echo "demo_pristine_exit=$?"
git apply patch_$X.diff || { echo "PATCH DOES NOT APPLY"; exit 2; }
echo "== demo with patch"; PYTHONPATH=$W/src timeout 600 /venv/bin/python demo_$X.py >/dev/null 2>&1; echo "demo_patched_exit=$?"
if [ -z "$SKIP_SUITE" ]; then
echo "== suite with patch"; env -u WELL_ID_DLISWRITER_VERIF PYTHONPATH=$W/src /venv/bin/python -m pytest -q -p no:cacheprovider --timeout=900 src/tests 2>&1 | tail -1
fi
echo "== checks against patched worktree"
for C in $CHECKS; do
  OUT=$(cd /verif && VERIF_REPO=$W VERIF_SEED=${VERIF_SEED:-0} ./check $C --tier ${TIER:-quick} --no-evidence 2>&1); RC=$?
  echo "$C rc=$RC $(echo "$OUT" | tail -1 | cut -c1-150)"
  echo "$OUT" | grep "signature:" | cut -c1-260 | head -3
done
git apply -R patch_$X.diff; git checkout -q -- src
} > $LOG 2>&1
cat $LOG
