#!/bin/bash
# usage: tools/eval_patch.sh <patch file> <demo file> <check ids...>
# fresh scratch worktree of /repo HEAD: demo on pristine, apply patch, demo again, run the checks via VERIF_REPO.
PATCH="$1"; DEMO="$2"; shift 2
W=/tmp/mut/evalwt_$$
git -C /repo worktree add -q --detach $W HEAD || exit 2
trap 'git -C /repo worktree remove --force '$W EXIT
cp "$DEMO" $W/demo_eval.py
cd $W
PYTHONPATH=$W/src timeout 600 /venv/bin/python demo_eval.py >/dev/null 2>&1; echo "demo_pristine_exit=$?"
git apply "$PATCH" || { echo "PATCH DOES NOT APPLY to HEAD"; exit 2; }
PYTHONPATH=$W/src timeout 600 /venv/bin/python demo_eval.py >/dev/null 2>&1; echo "demo_patched_exit=$?"
for C in "$@"; do
  OUT=$(cd /verif && VERIF_REPO=$W VERIF_SEED=${VERIF_SEED:-0} ./check $C --tier ${TIER:-quick} --no-evidence 2>&1); RC=$?
  echo "$C rc=$RC $(echo "$OUT" | tail -1 | cut -c1-150)"
  echo "$OUT" | grep "signature:" | cut -c1-260 | head -3
done
