#!/bin/bash
# usage: tools/try_seed.sh <seeded id> <check id> [...]  - run quick checks against a scratch worktree of /repo HEAD + the seeded patch
ID="$1"; shift; WT=/tmp/mut/try_$ID; mkdir -p /tmp/mut
git -C /repo worktree add -q --detach $WT HEAD && git -C $WT apply /verif/seeded/$ID/patch.diff || exit 2
for c in "$@"; do VERIF_REPO=$WT /verif/check $c --tier quick --no-evidence | grep -v "^  " | tail -4; done
git -C /repo worktree remove --force $WT
