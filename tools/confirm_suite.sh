#!/bin/bash
# usage: tools/confirm_suite.sh <Cxx> <A|B>  - runs the unedited 475-test suite on a scratch copy of /repo HEAD + the patch
P="$1"; X="$2"; D=${MUT_DIR:-/tmp/mut}/suite_${P}_$X
rm -rf $D; mkdir -p $D && git -C /repo archive --format=tar HEAD | tar -x -C $D
cd $D && git init -q . 2>/dev/null; git apply ${MUT_DIR:-/tmp/mut}/$P/patch_$X.diff 2>/dev/null || patch -p1 -s < ${MUT_DIR:-/tmp/mut}/$P/patch_$X.diff || { echo "$P-$X PATCH FAILED" > ${MUT_DIR:-/tmp/mut}/$P/suite_$X.txt; exit 2; }
env -u WELL_ID_DLISWRITER_VERIF PYTHONPATH=$D/src /venv/bin/python -m pytest -q -p no:cacheprovider --timeout=900 src/tests 2>&1 | tail -1 > ${MUT_DIR:-/tmp/mut}/$P/suite_$X.txt
cd /; rm -rf $D
cat ${MUT_DIR:-/tmp/mut}/$P/suite_$X.txt
