#!/bin/bash
# Run the repository's pinned test suite on a scratch copy of /repo's HEAD (or working tree with --wt), guard OFF.
# usage: tools/run_suite.sh <tag> [--wt]     result: /tmp/scratch/suite_<tag>.log (last line = pytest summary)
TAG="${1:-x}"
D=/tmp/scratch/suite_$TAG
rm -rf "$D"; mkdir -p /tmp/scratch
if [ "$2" == "--wt" ]; then rsync -a --exclude .git /repo/ "$D/"; else git -C /repo archive --format=tar --prefix=suite_$TAG/ HEAD | tar -x -C /tmp/scratch; fi
cd "$D" && env -u WELL_ID_DLISWRITER_VERIF PYTHONPATH="$D/src" /venv/bin/python -m pytest -q -p no:cacheprovider --timeout=900 -x -q > /tmp/scratch/suite_$TAG.log 2>&1
echo "exit=$?" >> /tmp/scratch/suite_$TAG.log
rm -rf "$D"
