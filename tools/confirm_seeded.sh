#!/bin/bash
# usage: tools/confirm_seeded.sh <seeded id>   - suite (475 tests) on a scratch copy of /repo HEAD + seeded/<id>/patch.diff,
# and the demonstration with / without the patch; result appended to /tmp/seeded_confirm/<id>.txt
ID="$1"; S=/verif/seeded/$ID; D=/tmp/seeded_confirm/work_$ID; mkdir -p /tmp/seeded_confirm
rm -rf $D; mkdir -p $D && git -C /repo archive --format=tar HEAD | tar -x -C $D
cd $D && cp $S/*.py . && cp $S/demo.py demo_seeded.py
PYTHONPATH=$D/src timeout 600 /venv/bin/python demo_seeded.py >/dev/null 2>&1; P0=$?
git init -q . 2>/dev/null; git apply $S/patch.diff || { echo "$ID PATCH-FAILED" > /tmp/seeded_confirm/$ID.txt; exit 2; }
PYTHONPATH=$D/src timeout 600 /venv/bin/python demo_seeded.py >/dev/null 2>&1; P1=$?
SUITE=$(env -u WELL_ID_DLISWRITER_VERIF PYTHONPATH=$D/src /venv/bin/python -m pytest -q -p no:cacheprovider --timeout=900 src/tests 2>&1 | tail -1)
echo "$ID head=$(git -C /repo log --format=%h -1) demo_pristine=$P0 demo_patched=$P1 suite=[$SUITE]" > /tmp/seeded_confirm/$ID.txt
cd /; rm -rf $D; cat /tmp/seeded_confirm/$ID.txt
