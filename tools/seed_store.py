#!/usr/bin/env python3
"""Store an independently written, confirmed breaking change under /verif/seeded/<id>/ and record which checks catch it.

usage: tools/seed_store.py <Cxx> <A|B> <check ids to run against it...>
Expects /tmp/mut/<Cxx>/{patch_X.diff, demo_X.py, meta.json, suite_X.txt (my own suite run), verify_X.log (demo exits)}.
The checks are run against /repo with the patch applied (git -C /repo apply), which is undone straight afterwards.
"""
import json
import os
import re
import shutil
import subprocess
import sys

pid, X, checks = sys.argv[1], sys.argv[2], sys.argv[3:]
base = os.environ.get('MUT_DIR', '/tmp/mut')
src = f"{base}/{pid}"
# round 2 deliveries (A, B in /tmp/mut2) are stored as C, D
sid = f"{pid}-{X}" if base.rstrip('/').endswith('mut') else f"{pid}-{ {'A': 'C', 'B': 'D'}[X] }"
dst = f"/verif/seeded/{sid}"
os.makedirs(dst, exist_ok=True)
shutil.copy(f"{src}/patch_{X}.diff", f"{dst}/patch.diff")
shutil.copy(f"{src}/demo_{X}.py", f"{dst}/demo.py")
agent_meta = json.load(open(f"{src}/meta.json")).get(X, {})
suite = open(f"{src}/suite_{X}.txt").read().strip() if os.path.exists(f"{src}/suite_{X}.txt") else 'not run'
vlog = open(f"{src}/verify_{X}.log").read() if os.path.exists(f"{src}/verify_{X}.log") else ''
m1 = re.search(r"demo_pristine_exit=(\d+)", vlog)
m2 = re.search(r"demo_patched_exit=(\d+)", vlog)
assert subprocess.run(['git', '-C', '/repo', 'status', '--short'], capture_output=True, text=True).stdout.strip() == '', \
    "/repo not clean"
subprocess.run(['git', '-C', '/repo', 'apply', f"{dst}/patch.diff"], check=True)
results = {}
try:
    for c in checks:
        p = subprocess.run(['./check', c, '--tier', 'quick', '--no-evidence'], cwd='/verif', capture_output=True, text=True,
                           env=dict(os.environ, VERIF_SEED='0'))
        sigs = re.findall(r"signature: (\S+)", p.stdout)
        results[c] = {'exit': p.returncode, 'signatures': sigs[:6],
                      'summary': p.stdout.strip().splitlines()[-1][:200] if p.stdout.strip() else ''}
finally:
    subprocess.run(['git', '-C', '/repo', 'checkout', '--', '.'], check=True)
meta = {
    'id': sid, 'property': pid,
    'summary': agent_meta.get('summary'), 'needs_to_manifest': agent_meta.get('needs_to_manifest'),
    'files': agent_meta.get('files'),
    'written_by': 'independent sub-agent given only the property text and its own scratch worktree of /repo',
    'confirmed': {
        'demo_exit_on_pristine_tree': int(m1.group(1)) if m1 else None,
        'demo_exit_with_patch': int(m2.group(1)) if m2 else None,
        'suite_with_patch': suite,
        'how': f"tools/verify_mutant.sh {pid} {X} (scratch worktree {base}/{pid}); tools/confirm_suite.sh {pid} {X} "
               f"(unedited 475-test suite on a scratch copy of /repo HEAD + patch); checks run with the patch applied "
               f"to /repo (git apply) and undone afterwards (git checkout -- .)",
    },
    'checks_run': results,
    'caught_by': sorted(c for c, r in results.items() if r['exit'] == 1),
}
json.dump(meta, open(f"{dst}/meta.json", 'w'), indent=1)
print(sid, 'caught_by', meta['caught_by'], 'suite:', suite, 'demo:', meta['confirmed']['demo_exit_on_pristine_tree'],
      meta['confirmed']['demo_exit_with_patch'])
