#!/bin/bash
# Developer aid: line/branch coverage of /repo/src/dliswriter reached by the quick tiers (not a registered check).
# usage: tools/coverage.sh [ids...]    report: $VERIF_COV_DIR/report.txt (default /tmp/verif-cov)
cd "$(dirname "$0")/.."
export VERIF_COV="${VERIF_COV_DIR:-/tmp/verif-cov}"; rm -rf "$VERIF_COV"; mkdir -p "$VERIF_COV"
IDS="${@:-C01 C02 C03 C04 C05 C06 C07 C08 C09 C10 C11 C12 C13 C14 C15 C16 C17 C18 C19 C20}"
for p in $IDS; do ./check $p --tier quick --no-evidence | tail -1; done
cd "$VERIF_COV" && /venv/bin/python -m coverage combine --keep -q --data-file=all cov.* && /venv/bin/python -m coverage report --data-file=all -m --skip-covered > report.txt; tail -3 report.txt
