#!/usr/bin/env python3
"""Reader self-test: the independent reader (vf/rp66) and dlisio must agree on files written by the tree under test,
and the reader must decode a small hand-made golden corpus taken from the RP66 V1 text. A disagreement is a harness
problem (exit 2), never a property verdict.   usage: PYTHONPATH=/repo/src:/verif:/verif/.deps python tools/reader_selftest.py
"""
import json
import math
import os
import struct
import sys
import tempfile
from datetime import datetime

import numpy as np

HERE = os.path.dirname(os.path.dirname(os.path.abspath(__file__)))
sys.path.insert(0, HERE)
from vf.rp66 import codes as RC, read_file   # noqa
from vf.spec import build as B               # noqa


def golden():
    # RP66 V1 Appendix B examples
    v, o = RC.decode(21, bytes([0b01010111, 0b00010100, 0b00010011, 0b00010101, 0b00010100, 0b00001111, 0b00000010,
                                0b01101100]), 0)
    assert v == {'dtime': datetime(1987, 4, 19, 21, 20, 15, 620000), 'tz': 1}, v
    assert RC.decode(18, b'\x7f', 0) == (127, 1)
    assert RC.decode(18, b'\x80\x80', 0) == (128, 2)
    assert RC.decode(18, b'\xbf\xff', 0) == (16383, 2)
    assert RC.decode(18, b'\xc0\x00\x40\x00', 0) == (16384, 4)
    assert RC.decode(18, b'\xff\xff\xff\xff', 0) == (2 ** 30 - 1, 4)
    assert RC.decode(2, struct.pack('>f', 153.0), 0)[0] == 153.0
    assert RC.decode(1, bytes([0b01001100, 0b10001000]), 0)[0] == 153.0        # FSHORT example
    assert RC.decode(1, bytes([0b10110011, 0b10001000]), 0)[0] == -153.0
    assert RC.decode(5, bytes([0b01000010, 0b10011001, 0, 0]), 0)[0] == 153.0  # ISINGL example
    assert RC.decode(6, bytes([0b00011001, 0b01000100, 0, 0]), 0)[0] == 153.0  # VSINGL example
    assert RC.decode(19, b'\x05TYPE1', 0) == ('TYPE1', 6)
    assert RC.decode(23, b'\x01\x00\x03ABC', 0) == ((1, 0, 'ABC'), 6)
    print("golden corpus ok")


def agree_with_dlisio():
    from dlisio import dlis
    spec = json.load(open(os.path.join(HERE, 'tools', 'selftest_spec.json')))
    tmp = tempfile.mkdtemp(prefix='verif-selftest-')
    import atexit, shutil
    atexit.register(shutil.rmtree, tmp, ignore_errors=True)     # nothing is left under /tmp
    path = os.path.join(tmp, 'a.dlis')
    r = B.build_and_write(spec, path, tmp)
    assert r['outcome'] == 'written', r['exc']
    mine = read_file(r['buf'])
    with dlis.load(path) as files:
        assert len(files) == len(mine.logical_files)
        for f, lf in zip(files, mine.logical_files):
            theirs = {(o.type, o.origin, o.copynumber, o.name) for o in f.find('.*', '.*')}
            ours = {(s.type,) + tuple(o.name) for _, s in lf.sets for o in s.objects}
            assert theirs == ours, (theirs ^ ours)
            for fr in f.frames:
                curves = fr.curves()
                rows = lf.frame_rows[(fr.origin, fr.copynumber, fr.name)]
                assert len(curves) == len(rows)
                ch0 = fr.channels[0]
                col = curves[ch0.name]
                code = lf.find('CHANNEL', (ch0.origin, ch0.copynumber, ch0.name))[0][0].attrs['REPRESENTATION-CODE'].values[0]
                dt = {2: '>f4', 7: '>f8', 12: '>i1', 13: '>i2', 14: '>i4', 15: '>u1', 16: '>u2', 17: '>u4'}[code]
                for k, row in enumerate(rows):
                    a = np.frombuffer(row.slots[0], dtype=dt)
                    b = np.atleast_1d(col[k])
                    assert np.array_equal(a, b, equal_nan=True), (k, a, b)
            for o in f.origins:
                ours_o = lf.find('ORIGIN', (o.origin, o.copynumber, o.name))[0][0]
                assert o.file_set_nr == ours_o.attrs['FILE-SET-NUMBER'].values[0]
                assert (o.field_name or '') == (ours_o.attrs['FIELD-NAME'].values or [''])[0]
    print("agreement with dlisio ok")


if __name__ == '__main__':
    try:
        golden()
        agree_with_dlisio()
    except AssertionError as exc:
        print("READER SELF-TEST FAILED:", exc)
        sys.exit(2)
