#!/bin/bash
# usage: tools/run_all.sh [tier] [seed]   - runs every registered check, prints one line per check
TIER="${1:-quick}"; SEED="${2:-0}"
cd "$(dirname "$0")/.."
for i in $(seq -w 1 20); do
  P="C$i"
  OUT=$(VERIF_SEED=$SEED ./check $P --tier $TIER 2>&1); RC=$?
  echo "rc=$RC $(echo "$OUT" | tail -1)"
  echo "$OUT" | grep -E "^(VIOLATION|HARNESS-ERROR|KNOWN-FINDING)" | cut -c1-200
done
