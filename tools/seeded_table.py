#!/usr/bin/env python3
"""Print the Appendix D table of DESIGN.md from seeded/*/meta.json."""
import glob, json, os
rows = []
for f in sorted(glob.glob('/verif/seeded/*/meta.json')):
    m = json.load(open(f))
    caught = ', '.join(m['caught_by']) or '**none**'
    rows.append(f"| {m['id']} | {(m.get('summary') or '').strip()[:230]} | {(m.get('needs_to_manifest') or '').strip()[:200]} | {caught} |")
print("| id | change (written by an independent sub-agent) | needs, to manifest | caught by (quick tier, seed 0) |")
print("|---|---|---|---|")
print('\n'.join(rows))
