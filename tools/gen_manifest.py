#!/usr/bin/env python3
"""Regenerate MANIFEST.json from the per-property metadata below (keeps the file valid at all times)."""
import json, os, sys
HERE = os.path.dirname(os.path.dirname(os.path.abspath(__file__)))
sys.path.insert(0, HERE)

CHECKS = json.load(open(os.path.join(HERE, 'tools', 'checks.json')))
ALL = [f"C{i:02d}" for i in range(1, 21)]

manifest = {
    "version": 1,
    "setup_cmd": "./setup.sh",
    "hooks": {
        "guard": "WELL_ID_DLISWRITER_VERIF",
        "enable": "environment variable WELL_ID_DLISWRITER_VERIF=1, exported by ./check before the fresh interpreter imports /repo/src (pure Python: nothing to build)",
        "baseline_off_cmd": "cd /repo && env -u WELL_ID_DLISWRITER_VERIF /venv/bin/python -m pytest -ra -q -p no:cacheprovider --timeout=900 --continue-on-collection-errors",
        "source_commits": CHECKS["_hooks"]["source_commits"],
        "add_only": True,
    },
    "engines": [
        {"name": "vf-runner", "path": "vf/runner.py", "serves_properties": [c for c in ALL if c in CHECKS],
         "kind_free_text": "16-shard Hypothesis / bounded-enumeration driver with signature bucketing, shrinking to JSON replay files, known-findings handling and evidence writer"},
        {"name": "rp66-strict-reader", "path": "vf/rp66", "serves_properties": [c for c in ALL if c in CHECKS],
         "kind_free_text": "independent strict RP66 V1 reader (framing, component grammar, 27 representation codes, logical files, IFLR slicing) used as oracle"},
    ],
    "checks": [],
    "notes": CHECKS["_notes"],
    "not_applicable": list(CHECKS.get("_not_applicable", [])),
}
for pid in ALL:
    if pid not in CHECKS and not any(n["property_id"] == pid for n in manifest["not_applicable"]):
        manifest["not_applicable"].append({"property_id": pid, "reason": "check not built yet in this session (designed in DESIGN.md section 4; the technique applies)"})
for pid in ALL:
    c = CHECKS.get(pid)
    if not c:
        continue
    manifest["checks"].append({
        "property_id": pid,
        "quick_cmd": f"./check {pid} --tier quick",
        "thorough_cmd": f"./check {pid} --tier thorough",
        "evidence_file": f"evidence/{pid}.json",
        "replay_cmd_template": f"./check {pid} --replay {{path}}",
        "engine": "vf-runner",
        "level_claimed": {"category": "exploration", "text": c["text"], "design_ref": c.get("design_ref", f"DESIGN.md section 4, {pid}")},
        "level_note": c["note"],
        "technique": c["technique"],
    })
json.dump(manifest, open(os.path.join(HERE, 'MANIFEST.json'), 'w'), indent=1)
try:
    import jsonschema
    jsonschema.validate(manifest, json.load(open('/root/.vp/MANIFEST.schema.json')))
    print("MANIFEST.json valid;", len(manifest["checks"]), "checks")
except ImportError:
    print("MANIFEST.json written (jsonschema not importable)")
