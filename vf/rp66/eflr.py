"""Strict parser for the body of an explicitly formatted logical record (RP66 V1 ch. 3)."""
from .codes import FormatError, decode, dec_ident, dec_uvari, dec_obname, CODE_NAMES

ROLE_ABSATR, ROLE_ATTRIB, ROLE_INVATR, ROLE_OBJECT, ROLE_RESERVED, ROLE_RDSET, ROLE_RSET, ROLE_SET = range(8)


class Attr:
    __slots__ = ('label', 'count', 'code', 'units', 'values', 'absent', 'explicit', 'invariant')

    def __init__(self, label, count, code, units, values, absent=False, explicit=None, invariant=False):
        self.label = label
        self.count = count
        self.code = code
        self.units = units
        self.values = values      # list or None (no value)
        self.absent = absent
        self.explicit = explicit or {}
        self.invariant = invariant

    def __repr__(self):
        if self.absent:
            return f"<{self.label}: ABSENT>"
        return f"<{self.label}: n={self.count} {CODE_NAMES.get(self.code, self.code)} u={self.units!r} v={self.values!r}>"


class Obj:
    __slots__ = ('name', 'attrs', 'n_components', 'offset')

    def __init__(self, name, offset):
        self.name = name          # (origin, copy, identifier)
        self.attrs = {}           # label -> Attr (effective, template defaults applied)
        self.n_components = 0
        self.offset = offset


class EflrSet:
    __slots__ = ('role', 'type', 'name', 'template', 'objects')

    def __init__(self, role, type_, name):
        self.role = role
        self.type = type_
        self.name = name
        self.template = []
        self.objects = []


def _attr_component(buf, off, fmt, in_template, tmpl):
    """Decode the characteristics of one ATTRIB/INVATR component. tmpl = template Attr (or None in template)."""
    explicit = {}
    label = tmpl.label if tmpl else ''
    count = tmpl.count if tmpl else 1
    code = tmpl.code if tmpl else 19
    units = tmpl.units if tmpl else ''
    values = tmpl.values if tmpl else None
    start = off
    if fmt & 0x10:
        if not in_template:
            raise FormatError('eflr-label-in-object', off, "attribute component of an object carries a label")
        label, off = dec_ident(buf, off)
        explicit['label'] = True
    elif in_template:
        raise FormatError('eflr-template-no-label', off, "template attribute without label")
    if fmt & 0x08:
        count, off = dec_uvari(buf, off)
        explicit['count'] = True
    if fmt & 0x04:
        if off >= len(buf):
            raise FormatError('truncated', off, 'representation code')
        code = buf[off]
        off += 1
        explicit['code'] = True
        if code not in CODE_NAMES:
            raise FormatError('eflr-undefined-code', off - 1, f"representation code {code}")
    if fmt & 0x02:
        units, off = decode(27, buf, off)
        explicit['units'] = True
    if fmt & 0x01:
        explicit['value'] = True
        if count == 0:
            raise FormatError('eflr-value-with-count-0', start, f"label {label!r}")
        vals = []
        for i in range(count):
            try:
                v, off = decode(code, buf, off)
            except FormatError as exc:
                raise FormatError('eflr-value-decode', exc.offset,
                                  f"label {label!r} value {i + 1}/{count} code {CODE_NAMES.get(code)}: "
                                  f"{exc.kind} {exc.detail}")
            vals.append(v)
        values = vals
    else:
        if explicit.get('count') or explicit.get('code'):
            # count or code given but no value: the value stays the template default; if that default was
            # decoded for another count it would be inconsistent
            if values is not None and len(values) != count:
                raise FormatError('eflr-count-vs-default-value', start, f"label {label!r}")
    if count == 0:
        values = None
    return Attr(label, count, code, units, values, False, explicit), off


def parse_eflr(body, base_offset=0):
    """Parse an EFLR body. Returns EflrSet; raises FormatError on any deviation from the component grammar."""
    buf = bytes(body)
    n = len(buf)
    if n == 0:
        raise FormatError('eflr-empty', base_offset, 'empty EFLR body')
    off = 0
    d = buf[off]
    role, fmt = d >> 5, d & 0x1F
    if role not in (ROLE_SET, ROLE_RSET, ROLE_RDSET):
        raise FormatError('eflr-first-not-set', off, f"descriptor 0x{d:02x}")
    if not fmt & 0x10:
        raise FormatError('eflr-set-without-type', off, f"descriptor 0x{d:02x}")
    if fmt & 0x07:
        raise FormatError('eflr-set-reserved-bits', off, f"descriptor 0x{d:02x}")
    off += 1
    stype, off = dec_ident(buf, off)
    if not stype:
        raise FormatError('eflr-set-empty-type', off, '')
    sname = None
    if fmt & 0x08:
        sname, off = dec_ident(buf, off)
    es = EflrSet(role, stype, sname)

    # template
    labels = set()
    while True:
        if off >= n:
            raise FormatError('eflr-no-objects', off, f"set {stype!r} ends after the template")
        d = buf[off]
        role, fmt = d >> 5, d & 0x1F
        if role == ROLE_OBJECT:
            break
        if role not in (ROLE_ATTRIB, ROLE_INVATR):
            raise FormatError('eflr-template-bad-role', off, f"descriptor 0x{d:02x} in template of {stype!r}")
        a, off = _attr_component(buf, off + 1, fmt, True, None)
        a.invariant = role == ROLE_INVATR
        if not a.label:
            raise FormatError('eflr-template-empty-label', off, f"set {stype!r}")
        if a.label in labels:
            raise FormatError('eflr-template-duplicate-label', off, f"{a.label!r} in {stype!r}")
        labels.add(a.label)
        es.template.append(a)
    if not es.template:
        raise FormatError('eflr-empty-template', off, f"set {stype!r}")

    # objects
    while off < n:
        d = buf[off]
        role, fmt = d >> 5, d & 0x1F
        if role != ROLE_OBJECT:
            raise FormatError('eflr-expected-object', off, f"descriptor 0x{d:02x}")
        if not fmt & 0x10:
            raise FormatError('eflr-object-without-name', off, f"descriptor 0x{d:02x}")
        if fmt & 0x0F:
            raise FormatError('eflr-object-reserved-bits', off, f"descriptor 0x{d:02x}")
        ooff = off
        name, off = dec_obname(buf, off + 1)
        ob = Obj(name, base_offset + ooff)
        i = 0
        variable = [t for t in es.template if not t.invariant]
        while off < n:
            d = buf[off]
            role, fmt = d >> 5, d & 0x1F
            if role == ROLE_OBJECT:
                break
            if i >= len(variable):
                raise FormatError('eflr-too-many-attributes', off,
                                  f"object {name} of {stype!r} has more than {len(variable)} attribute components")
            t = variable[i]
            if role == ROLE_ABSATR:
                if fmt:
                    raise FormatError('eflr-absatr-format-bits', off, f"descriptor 0x{d:02x}")
                ob.attrs[t.label] = Attr(t.label, 0, t.code, t.units, None, absent=True)
                off += 1
            elif role == ROLE_ATTRIB:
                a, off = _attr_component(buf, off + 1, fmt, False, t)
                ob.attrs[t.label] = a
            else:
                raise FormatError('eflr-object-bad-role', off, f"descriptor 0x{d:02x} in object {name}")
            i += 1
        ob.n_components = i
        for t in variable[i:]:
            ob.attrs[t.label] = Attr(t.label, t.count, t.code, t.units, t.values, False, {})
        for t in es.template:
            if t.invariant:
                ob.attrs[t.label] = t
        es.objects.append(ob)
    if not es.objects:
        raise FormatError('eflr-no-objects', off, f"set {stype!r}")
    return es
