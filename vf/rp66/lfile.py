"""Logical-file level view: split at FILE-HEADER, object index, reference resolution, IFLR decoding."""
from .codes import FormatError, dec_obname, dec_uvari, FIXED_SIZE
from .framing import parse_physical, reassemble
from .eflr import parse_eflr


class FrameRow:
    __slots__ = ('number', 'slots', 'record_index', 'body_len')

    def __init__(self, number, slots, record_index, body_len):
        self.number = number
        self.slots = slots      # list of bytes, one per channel in frame order
        self.record_index = record_index
        self.body_len = body_len


class LogicalFile:
    def __init__(self, index):
        self.index = index
        self.records = []        # LogicalRecord objects in file order
        self.sets = []           # (record_index_in_file, EflrSet) in file order
        self.objects = {}        # (set_type, origin, copy, name) -> [(Obj, EflrSet, record_index)]
        self.frame_rows = {}     # frame obname -> [FrameRow]
        self.noformat = []       # (obname, payload bytes, record_index) in file order
        self.iflr_order = []     # ('F'|'N', obname, record_index)

    def find(self, set_type, obname):
        return self.objects.get((set_type,) + tuple(obname), [])

    def objects_of_type(self, set_type):
        out = []
        for ri, s in self.sets:
            if s.type == set_type:
                for o in s.objects:
                    out.append((o, s, ri))
        return out


class DecodedFile:
    def __init__(self):
        self.sul = None
        self.vrs = []
        self.records = []
        self.logical_files = []


def _channel_layout(lf, frame_obj, where):
    """Return [(channel obname, code, n_elements, byte size)] for a decoded FRAME object."""
    chans = frame_obj.attrs.get('CHANNELS')
    if chans is None or chans.values is None:
        raise FormatError('frame-without-channels', where, f"frame {frame_obj.name}")
    if chans.code != 23:
        raise FormatError('frame-channels-code', where, f"CHANNELS has code {chans.code}")
    layout = []
    for cn in chans.values:
        found = lf.find('CHANNEL', cn)
        if len(found) != 1:
            raise FormatError('frame-channel-unresolved', where,
                              f"channel {cn} of frame {frame_obj.name} matches {len(found)} CHANNEL objects")
        ch = found[0][0]
        rc = ch.attrs.get('REPRESENTATION-CODE')
        if rc is None or not rc.values or len(rc.values) != 1:
            raise FormatError('channel-without-repcode', where, f"channel {cn}")
        code = rc.values[0]
        if code not in FIXED_SIZE:
            raise FormatError('channel-variable-size-code', where, f"channel {cn} code {code}")
        dim = ch.attrs.get('DIMENSION')
        if dim is None or dim.values is None:
            raise FormatError('channel-without-dimension', where, f"channel {cn}")
        nel = 1
        for d in dim.values:
            if not isinstance(d, int):
                raise FormatError('channel-dimension-type', where, f"channel {cn} dimension {dim.values}")
            nel *= d
        layout.append((cn, code, nel, FIXED_SIZE[code] * nel))
    return layout


def read_file(buf, parse_iflr=True):
    """Strictly decode a whole DLIS file. Raises FormatError at the first deviation."""
    df = DecodedFile()
    df.sul, df.vrs = parse_physical(buf)
    df.records = reassemble(df.vrs)
    cur = None
    layouts = {}
    for rec in df.records:
        if rec.is_eflr:
            es = parse_eflr(rec.body, rec.offset)
            if es.type == 'FILE-HEADER':
                cur = LogicalFile(len(df.logical_files))
                df.logical_files.append(cur)
                layouts = {}
            elif cur is None:
                raise FormatError('record-before-file-header', rec.offset, f"set {es.type!r}")
            cur.records.append(rec)
            cur.sets.append((rec.index, es))
            for o in es.objects:
                cur.objects.setdefault((es.type,) + tuple(o.name), []).append((o, es, rec.index))
        else:
            if cur is None:
                raise FormatError('record-before-file-header', rec.offset, "IFLR")
            cur.records.append(rec)
            if not parse_iflr:
                continue
            body = rec.body
            name, off = dec_obname(body, 0)
            if rec.type == 0:
                found = cur.find('FRAME', name)
                if len(found) != 1:
                    raise FormatError('iflr-frame-unresolved', rec.offset,
                                      f"FDATA refers to frame {name}: {len(found)} matches in this logical file")
                num, off = dec_uvari(body, off)
                if name not in layouts:
                    layouts[name] = _channel_layout(cur, found[0][0], rec.offset)
                slots = []
                for cn, code, nel, size in layouts[name]:
                    if off + size > len(body):
                        raise FormatError('fdata-short', rec.offset,
                                          f"frame {name} row {num}: slot {cn} needs {size} bytes, "
                                          f"{len(body) - off} left")
                    slots.append(body[off:off + size])
                    off += size
                if off != len(body):
                    raise FormatError('fdata-long', rec.offset,
                                      f"frame {name} row {num}: {len(body) - off} bytes beyond the declared slots")
                cur.frame_rows.setdefault(name, []).append(FrameRow(num, slots, rec.index, len(body)))
                cur.iflr_order.append(('F', name, rec.index))
            elif rec.type == 1:
                found = cur.find('NO-FORMAT', name)
                if len(found) != 1:
                    raise FormatError('iflr-noformat-unresolved', rec.offset,
                                      f"NOFORMAT data refers to {name}: {len(found)} matches")
                cur.noformat.append((name, body[off:], rec.index))
                cur.iflr_order.append(('N', name, rec.index))
            else:
                raise FormatError('iflr-unknown-type', rec.offset, f"IFLR type {rec.type}")
    return df
