"""Decoders for the 27 RP66 V1 representation codes (Appendix B of the standard).

Every decoder takes (buf, off) and returns (value, new_off); anything that is not a legal
encoding raises FormatError.  Nothing is guessed.
"""
import struct
from datetime import datetime, timezone, timedelta


class FormatError(Exception):
    """A deviation from RP66 V1 found by the strict reader."""

    def __init__(self, kind, offset=None, detail=''):
        super().__init__(f"{kind} @ {offset}: {detail}")
        self.kind = kind
        self.offset = offset
        self.detail = detail


CODE_NAMES = {
    1: 'FSHORT', 2: 'FSINGL', 3: 'FSING1', 4: 'FSING2', 5: 'ISINGL', 6: 'VSINGL', 7: 'FDOUBL', 8: 'FDOUB1',
    9: 'FDOUB2', 10: 'CSINGL', 11: 'CDOUBL', 12: 'SSHORT', 13: 'SNORM', 14: 'SLONG', 15: 'USHORT', 16: 'UNORM',
    17: 'ULONG', 18: 'UVARI', 19: 'IDENT', 20: 'ASCII', 21: 'DTIME', 22: 'ORIGIN', 23: 'OBNAME', 24: 'OBJREF',
    25: 'ATTREF', 26: 'STATUS', 27: 'UNITS',
}
CODE_BY_NAME = {v: k for k, v in CODE_NAMES.items()}

FIXED_SIZE = {1: 2, 2: 4, 3: 8, 4: 12, 5: 4, 6: 4, 7: 8, 8: 16, 9: 24, 10: 8, 11: 16, 12: 1, 13: 2, 14: 4,
              15: 1, 16: 2, 17: 4, 21: 8, 26: 1}


def _need(buf, off, n, what):
    if off + n > len(buf):
        raise FormatError('truncated', off, f"need {n} bytes for {what}, have {len(buf) - off}")


def _unpack(fmt, size, what):
    def dec(buf, off):
        _need(buf, off, size, what)
        v = struct.unpack_from(fmt, buf, off)
        return (v[0] if len(v) == 1 else tuple(v)), off + size
    return dec


def dec_fshort(buf, off):
    _need(buf, off, 2, 'FSHORT')
    (raw,) = struct.unpack_from('>H', buf, off)
    exp = raw & 0xF
    mant = raw >> 4
    if mant & 0x800:
        mant -= 0x1000
    return (mant / 2048.0) * (2.0 ** exp), off + 2


def dec_isingl(buf, off):
    _need(buf, off, 4, 'ISINGL')
    (raw,) = struct.unpack_from('>I', buf, off)
    sign = -1.0 if raw >> 31 else 1.0
    exp = (raw >> 24) & 0x7F
    frac = (raw & 0xFFFFFF) / float(1 << 24)
    return sign * frac * 16.0 ** (exp - 64), off + 4


def dec_vsingl(buf, off):
    _need(buf, off, 4, 'VSINGL')
    b = buf[off:off + 4]
    # VAX F: bytes are stored word-swapped
    raw = (b[1] << 24) | (b[0] << 16) | (b[3] << 8) | b[2]
    sign = -1.0 if raw >> 31 else 1.0
    exp = (raw >> 23) & 0xFF
    frac = raw & 0x7FFFFF
    if exp == 0:
        return 0.0, off + 4
    return sign * (0.5 + frac / float(1 << 24)) * 2.0 ** (exp - 128), off + 4


def dec_uvari(buf, off):
    _need(buf, off, 1, 'UVARI')
    b0 = buf[off]
    if b0 & 0x80 == 0:
        return b0, off + 1
    if b0 & 0xC0 == 0x80:
        _need(buf, off, 2, 'UVARI(2)')
        return struct.unpack_from('>H', buf, off)[0] & 0x3FFF, off + 2
    _need(buf, off, 4, 'UVARI(4)')
    return struct.unpack_from('>I', buf, off)[0] & 0x3FFFFFFF, off + 4


def uvari_minimal_len(v):
    return 1 if v < 128 else (2 if v < 16384 else 4)


def _ascii(buf, off, n, what):
    _need(buf, off, n, what)
    raw = bytes(buf[off:off + n])
    for i, c in enumerate(raw):
        if c > 127:
            raise FormatError('non-ascii', off + i, f"byte 0x{c:02x} in {what}")
    return raw.decode('ascii'), off + n


def dec_ident(buf, off):
    _need(buf, off, 1, 'IDENT length')
    n = buf[off]
    return _ascii(buf, off + 1, n, 'IDENT')


def dec_ascii(buf, off):
    n, off2 = dec_uvari(buf, off)
    return _ascii(buf, off2, n, 'ASCII')


def dec_dtime(buf, off):
    _need(buf, off, 8, 'DTIME')
    y, tzm, d, h, mn, s, ms = struct.unpack_from('>BBBBBBH', buf, off)
    tz, month = tzm >> 4, tzm & 0xF
    if tz > 2:
        raise FormatError('dtime-tz', off + 1, f"time zone nibble {tz}")
    if not 1 <= month <= 12:
        raise FormatError('dtime-month', off + 1, f"month {month}")
    if not 1 <= d <= 31:
        raise FormatError('dtime-day', off + 2, f"day {d}")
    if h > 23 or mn > 59 or s > 59 or ms > 999:
        raise FormatError('dtime-range', off + 3, f"h={h} mn={mn} s={s} ms={ms}")
    try:
        dt = datetime(1900 + y, month, d, h, mn, s, ms * 1000)
    except ValueError as exc:
        raise FormatError('dtime-invalid', off, str(exc))
    return {'dtime': dt, 'tz': tz}, off + 8


def dec_obname(buf, off):
    o, off = dec_uvari(buf, off)
    _need(buf, off, 1, 'OBNAME copy')
    c = buf[off]
    name, off = dec_ident(buf, off + 1)
    return (o, c, name), off


def dec_objref(buf, off):
    t, off = dec_ident(buf, off)
    ob, off = dec_obname(buf, off)
    return (t,) + ob, off


def dec_attref(buf, off):
    t, off = dec_ident(buf, off)
    ob, off = dec_obname(buf, off)
    lab, off = dec_ident(buf, off)
    return (t,) + ob + (lab,), off


def dec_status(buf, off):
    _need(buf, off, 1, 'STATUS')
    v = buf[off]
    if v > 1:
        raise FormatError('status-range', off, f"STATUS {v}")
    return v, off + 1


_DECODERS = {
    1: dec_fshort,
    2: _unpack('>f', 4, 'FSINGL'),
    3: _unpack('>ff', 8, 'FSING1'),
    4: _unpack('>fff', 12, 'FSING2'),
    5: dec_isingl,
    6: dec_vsingl,
    7: _unpack('>d', 8, 'FDOUBL'),
    8: _unpack('>dd', 16, 'FDOUB1'),
    9: _unpack('>ddd', 24, 'FDOUB2'),
    10: _unpack('>ff', 8, 'CSINGL'),
    11: _unpack('>dd', 16, 'CDOUBL'),
    12: _unpack('>b', 1, 'SSHORT'),
    13: _unpack('>h', 2, 'SNORM'),
    14: _unpack('>i', 4, 'SLONG'),
    15: _unpack('>B', 1, 'USHORT'),
    16: _unpack('>H', 2, 'UNORM'),
    17: _unpack('>I', 4, 'ULONG'),
    18: dec_uvari,
    19: dec_ident,
    20: dec_ascii,
    21: dec_dtime,
    22: dec_uvari,
    23: dec_obname,
    24: dec_objref,
    25: dec_attref,
    26: dec_status,
    27: dec_ident,
}


def decode(code, buf, off):
    """Decode one value of representation code `code` at buf[off:]; return (value, new_off)."""
    dec = _DECODERS.get(code)
    if dec is None:
        raise FormatError('undefined-code', off, f"representation code {code}")
    return dec(buf, off)


def dtime_to_utc(v, local_tz=timezone.utc):
    """Return the instant of a decoded DTIME as an aware UTC datetime.

    tz nibble 2 = GMT; 0/1 = local standard / daylight time, interpreted in `local_tz`.
    """
    dt = v['dtime']
    if v['tz'] == 2:
        return dt.replace(tzinfo=timezone.utc)
    return dt.replace(tzinfo=local_tz).astimezone(timezone.utc)
