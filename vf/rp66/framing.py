"""Physical layout: storage unit label, visible records, logical record segments, reassembly (RP66 V1 ch. 2)."""
import struct
from .codes import FormatError


class Segment:
    __slots__ = ('offset', 'length', 'attr', 'type', 'body', 'pad', 'is_eflr', 'pred', 'succ')

    def __init__(self, offset, length, attr, type_, body, pad):
        self.offset = offset
        self.length = length
        self.attr = attr
        self.type = type_
        self.body = body
        self.pad = pad
        self.is_eflr = bool(attr & 0x80)
        self.pred = bool(attr & 0x40)
        self.succ = bool(attr & 0x20)


class VisibleRecord:
    __slots__ = ('offset', 'length', 'segments')

    def __init__(self, offset, length):
        self.offset = offset
        self.length = length
        self.segments = []


class LogicalRecord:
    __slots__ = ('is_eflr', 'type', 'body', 'segments', 'offset', 'index')

    def __init__(self, is_eflr, type_, body, segments, offset, index):
        self.is_eflr = is_eflr
        self.type = type_
        self.body = body
        self.segments = segments
        self.offset = offset
        self.index = index


def _field_int(raw, what, off):
    s = raw.decode('ascii')
    t = s.strip(' ')
    if not t or not t.isdigit():
        raise FormatError('sul-field', off, f"{what} is not a blank-padded unsigned integer: {s!r}")
    return int(t), s


def parse_sul(buf):
    """Parse the 80-byte storage unit label. Returns a dict of fields (raw strings and parsed numbers)."""
    if len(buf) < 80:
        raise FormatError('sul-short', 0, f"file has {len(buf)} bytes, SUL needs 80")
    sul = bytes(buf[:80])
    for i, c in enumerate(sul):
        if c > 127 or c < 32:
            raise FormatError('sul-non-printable-ascii', i, f"byte 0x{c:02x}")
    seq, seq_raw = _field_int(sul[0:4], 'sequence number', 0)
    version = sul[4:9].decode('ascii')
    if version != 'V1.00':
        raise FormatError('sul-version', 4, repr(version))
    structure = sul[9:15].decode('ascii')
    if structure != 'RECORD':
        raise FormatError('sul-structure', 9, repr(structure))
    mrl, mrl_raw = _field_int(sul[15:20], 'maximum record length', 15)
    if mrl != 0 and not 20 <= mrl <= 16384:
        raise FormatError('sul-max-record-length', 15, f"{mrl}")
    ident = sul[20:80].decode('ascii')
    return {'sequence_number': seq, 'sequence_raw': seq_raw, 'version': version, 'structure': structure,
            'max_record_length': mrl, 'max_record_length_raw': mrl_raw, 'set_identifier': ident}


def parse_physical(buf):
    """Strictly parse SUL + visible records + segments. Returns (sul, [VisibleRecord])."""
    sul = parse_sul(buf)
    maxlen = sul['max_record_length'] or 16384
    n = len(buf)
    off = 80
    vrs = []
    if off == n:
        return sul, vrs
    while off < n:
        if off + 4 > n:
            raise FormatError('vr-header-truncated', off, f"{n - off} trailing bytes")
        vlen, marker, ver = struct.unpack_from('>HBB', buf, off)
        if marker != 0xFF or ver != 0x01:
            raise FormatError('vr-marker', off + 2, f"0x{marker:02x}{ver:02x}")
        if vlen % 2:
            raise FormatError('vr-odd-length', off, f"{vlen}")
        if vlen < 20:
            raise FormatError('vr-too-short', off, f"{vlen}")
        if vlen > maxlen:
            raise FormatError('vr-too-long', off, f"{vlen} > {maxlen}")
        if off + vlen > n:
            raise FormatError('vr-truncated', off, f"declares {vlen}, {n - off} bytes left")
        vr = VisibleRecord(off, vlen)
        soff = off + 4
        end = off + vlen
        while soff < end:
            if soff + 4 > end:
                raise FormatError('segment-header-truncated', soff, f"{end - soff} bytes left in VR")
            slen, attr, typ = struct.unpack_from('>HBB', buf, soff)
            if slen % 2:
                raise FormatError('segment-odd-length', soff, f"{slen}")
            if slen < 16:
                raise FormatError('segment-too-short', soff, f"{slen}")
            if soff + slen > end:
                raise FormatError('segment-overruns-vr', soff, f"{slen} > {end - soff}")
            if attr & 0x10:
                raise FormatError('segment-encrypted', soff + 2, f"attr 0x{attr:02x}")
            if attr & 0x08:
                raise FormatError('segment-encryption-packet', soff + 2, f"attr 0x{attr:02x}")
            if attr & 0x04:
                raise FormatError('segment-checksum-bit', soff + 2, f"attr 0x{attr:02x}")
            if attr & 0x02:
                raise FormatError('segment-trailing-length-bit', soff + 2, f"attr 0x{attr:02x}")
            raw = bytes(buf[soff + 4:soff + slen])
            pad = 0
            if attr & 0x01:
                pad = raw[-1]
                if not 1 <= pad <= len(raw):
                    raise FormatError('segment-pad-count', soff + slen - 1, f"pad count {pad}, body {len(raw)}")
                raw = raw[:len(raw) - pad]
            vr.segments.append(Segment(soff, slen, attr, typ, raw, pad))
            soff += slen
        vrs.append(vr)
        off = end
    return sul, vrs


def reassemble(vrs):
    """Reassemble logical records from the segments, checking predecessor/successor bracketing."""
    records = []
    cur = None
    for vr in vrs:
        for seg in vr.segments:
            if cur is None:
                if seg.pred:
                    raise FormatError('segment-unexpected-predecessor', seg.offset,
                                      "first segment of a record has the predecessor bit")
                cur = [seg]
            else:
                if not seg.pred:
                    raise FormatError('segment-missing-predecessor', seg.offset,
                                      "continuation segment lacks the predecessor bit (or previous record not closed)")
                if seg.is_eflr != cur[0].is_eflr:
                    raise FormatError('segment-eflr-bit-differs', seg.offset, '')
                if seg.type != cur[0].type:
                    raise FormatError('segment-type-differs', seg.offset, f"{seg.type} vs {cur[0].type}")
                cur.append(seg)
            if not seg.succ:
                body = b''.join(s.body for s in cur)
                records.append(LogicalRecord(cur[0].is_eflr, cur[0].type, body, cur, cur[0].offset, len(records)))
                cur = None
    if cur is not None:
        raise FormatError('record-not-closed', cur[-1].offset, "file ends inside a logical record")
    return records
