"""Independent strict RP66 V1 reader (written from the standard; shares no code with dliswriter or dlisio)."""
from .codes import FormatError, decode, CODE_NAMES, FIXED_SIZE  # noqa
from .framing import parse_physical, reassemble, parse_sul  # noqa
from .eflr import parse_eflr  # noqa
from .lfile import read_file, DecodedFile  # noqa
