"""Client side of the fresh-process oracle (see vf/zygote.py)."""
import json
import os
import subprocess
import sys

from vf.core import HarnessError


class Fresh:
    def __init__(self, scratch):
        self.scratch = scratch
        self.proc = subprocess.Popen([sys.executable, '-m', 'vf.zygote'], stdin=subprocess.PIPE,
                                     stdout=subprocess.PIPE, text=True, bufsize=1)
        hello = json.loads(self.proc.stdout.readline())
        if not hello.get('ready'):
            raise HarnessError(f"zygote did not start: {hello}")
        self.queries = 0
        self.n = 0

    def write(self, spec):
        """Build + write `spec` in a fresh process. Returns (outcome, bytes|None, exc string|None)."""
        self.n += 1
        path = os.path.join(self.scratch, f"fresh{self.n % 8}.dlis")
        self.proc.stdin.write(json.dumps({'spec': spec, 'path': path, 'scratch': self.scratch}) + '\n')
        self.proc.stdin.flush()
        line = self.proc.stdout.readline()
        if not line:
            raise HarnessError("zygote died")
        res = json.loads(line)
        self.queries += 1
        if res['outcome'] == 'harness-error':
            raise HarnessError(f"fresh-process child failed: {res.get('exc')}")
        if res['outcome'] == 'written':
            with open(path, 'rb') as f:
                return 'written', f.read(), None
        return 'raised', None, res.get('exc')

    def write_subprocess(self, spec):
        """The same through a real interpreter start (cross-check of the fork-based oracle)."""
        path = os.path.join(self.scratch, "fresh_sub.dlis")
        code = ("import json,sys\nfrom vf.spec import build as B\n"
                "req=json.load(sys.stdin)\nr=B.build_and_write(req['spec'],req['path'],req['scratch'])\n"
                "print(r['outcome'])\n")
        p = subprocess.run([sys.executable, '-c', code], input=json.dumps({'spec': spec, 'path': path,
                                                                            'scratch': self.scratch}),
                           capture_output=True, text=True)
        if p.returncode != 0:
            raise HarnessError(f"subprocess oracle failed: {p.stderr[-500:]}")
        if p.stdout.strip().endswith('written'):
            with open(path, 'rb') as f:
                return 'written', f.read(), None
        return 'raised', None, None

    def close(self):
        try:
            self.proc.stdin.write(json.dumps({'quit': True}) + '\n')
            self.proc.stdin.flush()
            self.proc.wait(timeout=5)
        except Exception:
            self.proc.kill()
