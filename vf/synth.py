"""Synthetic layer for C01 / C02 / C15: drive DLISWriter with stub logical records of chosen body lengths.

case = {"vrl": int, "ocs": int|None, "sul": {"id": str, "seq": int},
        "recs": [{"e": 0|1, "t": 0..255, "L": int, "a": odd int, "b": int, "tail": hex}]}

The body of a record is a position-dependent byte pattern (so a moved, dropped or duplicated byte shows) whose last
bytes can be pinned ("tail", e.g. trailing 0x01 bytes that a padding bug would make ambiguous).
"""
import numpy as np

from vf import dw
from vf.rp66 import FormatError, parse_physical, reassemble


def make_body(rec):
    n = rec['L']
    a = rec.get('a', 7) | 1
    b = rec.get('b', 3)
    i = np.arange(n, dtype=np.uint32)
    body = (((i * a + b) ^ (i >> 8) ^ (i >> 16)) & 0xFF).astype(np.uint8).tobytes()
    tail = bytes.fromhex(rec.get('tail', '') or '')
    if tail and n:
        tail = tail[-n:]
        body = body[:n - len(tail)] + tail
    return body


class _StubRecord:
    """Looks like a LogicalRecord to DLISWriter.write_logical_records: has represent_as_bytes()."""

    def __init__(self, body, type_byte, is_eflr):
        self.body = body
        self.type_byte = type_byte
        self.is_eflr = is_eflr

    def represent_as_bytes(self):
        from dliswriter.logical_record.core.logical_record import LogicalRecordBytes
        return LogicalRecordBytes(self.body, bytes([self.type_byte]), is_eflr=bool(self.is_eflr))


class _Sized(list):
    pass


def run_synth(case, path):
    """Write the synthetic case with the real writer.

    Returns dict(outcome='written'|'raised'|'rejected-config', exc=..., buf=bytes|None, given=[(e,t,body)]).
    'rejected-config' = the constructor / label refused the configuration (allowed: not a write).
    """
    dw.check_import_location()
    from dliswriter.file.writer import DLISWriter
    from dliswriter.logical_record.misc import StorageUnitLabel
    vrl = case['vrl']
    sul_cfg = case.get('sul') or {}
    given = [(bool(r['e']), r['t'], make_body(r)) for r in case['recs']]
    try:
        sul = StorageUnitLabel(sul_cfg.get('id', 'SYNTH'), sequence_number=sul_cfg.get('seq', 1),
                               max_record_length=vrl)
        writer = DLISWriter(path, visible_record_length=vrl)
    except Exception as exc:
        return {'outcome': 'rejected-config', 'exc': exc, 'buf': None, 'given': given}
    recs = _Sized(_StubRecord(b, t, e) for e, t, b in given)
    ocs = case.get('ocs') or max(vrl, 1 << 16)
    try:
        writer.write_storage_unit_label(sul)
        writer.write_logical_records(recs, output_chunk_size=ocs)
    except Exception as exc:
        return {'outcome': 'raised', 'exc': exc, 'buf': None, 'given': given}
    with open(path, 'rb') as f:
        buf = f.read()
    return {'outcome': 'written', 'exc': None, 'buf': buf, 'given': given}


def check_layout(buf, vrl, sul_cfg):
    """C01 oracle on file bytes. Returns (list of (kind, detail), vrs or None)."""
    out = []
    try:
        sul, vrs = parse_physical(buf)
    except FormatError as exc:
        return [(exc.kind, f"{exc.detail} @ {exc.offset}")], None
    if sul['max_record_length'] != vrl:
        out.append(('sul-max-length-mismatch', f"label says {sul['max_record_length']}, configured {vrl}"))
    if sul_cfg is not None:
        ident = sul_cfg.get('id', 'SYNTH')
        if sul['set_identifier'] != ident.ljust(60):
            out.append(('sul-identifier-mismatch', f"{sul['set_identifier']!r} vs {ident!r}"))
        if sul['sequence_number'] != sul_cfg.get('seq', 1):
            out.append(('sul-sequence-mismatch', f"{sul['sequence_number']} vs {sul_cfg.get('seq', 1)}"))
    return out, vrs


def check_lossless(vrs, given):
    """C02 oracle: reassembled records == given records. Returns list of (kind, detail)."""
    try:
        recs = reassemble(vrs)
    except FormatError as exc:
        return [(exc.kind, f"{exc.detail} @ {exc.offset}")], None
    out = []
    if len(recs) != len(given):
        out.append(('record-count', f"file has {len(recs)} records, writer was given {len(given)}"))
    for i, (r, g) in enumerate(zip(recs, given)):
        e, t, body = g
        if r.is_eflr != e:
            out.append(('record-eflr-flag', f"record {i}: file {r.is_eflr}, given {e}"))
        if r.type != t:
            out.append(('record-type', f"record {i}: file {r.type}, given {t}"))
        if r.body != body:
            if len(r.body) != len(body):
                out.append(('record-body-length', f"record {i}: file {len(r.body)} bytes, given {len(body)}"))
            else:
                k = next(j for j in range(len(body)) if r.body[j] != body[j])
                out.append(('record-body-bytes', f"record {i}: first difference at byte {k} of {len(body)}"))
    return out, recs


def length_class(L, cap):
    """Classify a body length relative to the segment capacity (for signatures and histograms)."""
    if L < 12:
        return 'L<12'
    if cap <= 0:
        return 'cap<=0'
    k, d = divmod(L, cap)
    if k >= 1 and d == 0:
        return 'exact-fill'
    if k >= 1 and 0 < d < 12:
        return 'short-remainder'
    if k >= 1 and cap - d <= 11:
        return 'near-fill'
    if k == 0:
        return 'single-segment'
    return 'multi-segment'
