"""Thin helpers for driving the code under test (dliswriter from $VERIF_REPO/src, first on PYTHONPATH)."""
import contextlib
import logging
import os

_state = {'checked': False}


def check_import_location():
    """The code under test must come from the tree the check was asked to verify."""
    if _state['checked']:
        return
    import dliswriter
    repo = os.path.realpath(os.environ.get('VERIF_REPO', '/repo'))
    loc = os.path.realpath(os.path.dirname(dliswriter.__file__))
    if not loc.startswith(repo + os.sep):
        from vf.core import HarnessError
        raise HarnessError(f"dliswriter imported from {loc}, expected under {repo}")
    logging.getLogger('dliswriter').setLevel(logging.WARNING)
    _state['checked'] = True


def clear_caches():
    from dliswriter.utils.internal import struct_writer
    from dliswriter.logical_record.core.logical_record import segment_attributes
    for fn in (getattr(struct_writer, 'write_struct', None), getattr(struct_writer, '_write_struct_cached', None),
               getattr(segment_attributes, 'ushort', None)):
        cc = getattr(fn, 'cache_clear', None)
        if cc:
            cc()


@contextlib.contextmanager
def lr_tap(sink):
    from dliswriter.logical_record.core.logical_record import logical_record_bytes as lrb
    if not getattr(lrb, '_VERIF_LR_TAP', False):
        from vf.core import HarnessError
        raise HarnessError("lr-tap hook is not active (WELL_ID_DLISWRITER_VERIF=1 and hook commit required)")
    lrb._verif_lr_sinks.append(sink)
    try:
        yield
    finally:
        lrb._verif_lr_sinks.remove(sink)


@contextlib.contextmanager
def flush_tap(sink):
    from dliswriter.file import writer as w
    if not getattr(w, '_VERIF_FLUSH_TAP', False):
        from vf.core import HarnessError
        raise HarnessError("flush-tap hook is not active (WELL_ID_DLISWRITER_VERIF=1 and hook commit required)")
    w._verif_flush_sinks.append(sink)
    try:
        yield
    finally:
        w._verif_flush_sinks.remove(sink)


class LogCapture(logging.Handler):
    """Collect WARNING+ records of the 'dliswriter' logger tree."""

    def __init__(self):
        super().__init__(level=logging.WARNING)
        self.records = []

    def emit(self, record):
        self.records.append(record)


@contextlib.contextmanager
def capture_warnings():
    h = LogCapture()
    lg = logging.getLogger('dliswriter')
    lg.addHandler(h)
    try:
        yield h
    finally:
        lg.removeHandler(h)


def exc_site(exc):
    """(type name, innermost dliswriter frame 'file:function') of an exception raised by the code under test."""
    import traceback
    site = '?'
    for fs in reversed(traceback.extract_tb(exc.__traceback__)):
        if 'dliswriter' in fs.filename:
            site = f"{os.path.basename(fs.filename)}:{fs.name}"
            break
    return type(exc).__name__, site
