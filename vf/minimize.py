"""Structural minimiser for specification cases (post-pass after Hypothesis' own shrinking).

Greedy, signature-preserving: a candidate is kept only if running it still yields the same signature. Bounded by a
number of re-executions. Knows the shape of a spec (ops with index references), nothing about the property.
"""
import copy


def _refs(v, out):
    if isinstance(v, dict):
        if '$ref' in v and isinstance(v['$ref'], int):
            out.add(v['$ref'])
        elif '$origin' in v and isinstance(v['$origin'], int):
            out.add(v['$origin'])
        elif '$origin_later' in v:
            out.add(v['$origin_later'])
        else:
            for x in v.values():
                _refs(x, out)
    elif isinstance(v, list):
        for x in v:
            _refs(x, out)


def _remap(v, j):
    if isinstance(v, dict):
        if '$ref' in v and isinstance(v['$ref'], int):
            return {'$ref': v['$ref'] - 1 if v['$ref'] > j else v['$ref']}
        if '$origin' in v and isinstance(v['$origin'], int):
            return {'$origin': v['$origin'] - 1 if v['$origin'] > j else v['$origin']}
        if '$origin_later' in v:
            return {'$origin_later': v['$origin_later'] - 1 if v['$origin_later'] > j else v['$origin_later']}
        return {k: _remap(x, j) for k, x in v.items()}
    if isinstance(v, list):
        return [_remap(x, j) for x in v]
    return v


def candidates(case):
    """Yield simpler variants of a spec case."""
    if not isinstance(case, dict) or 'lfs' not in case:
        return
    # drop whole logical files (only when no explicit cross-file order is given)
    if len(case['lfs']) > 1 and not case.get('order'):
        for i in range(len(case['lfs']) - 1, -1, -1):
            c = copy.deepcopy(case)
            del c['lfs'][i]
            yield c
    for i, lf in enumerate(case['lfs']):
        ops = lf['ops']
        used = set()
        for op in ops:
            _refs(op, used)
        # drop unreferenced ops, last first
        if not case.get('order'):
            for j in range(len(ops) - 1, -1, -1):
                if j in used:
                    continue
                c = copy.deepcopy(case)
                c['lfs'][i]['ops'] = [_remap(o, j) for k, o in enumerate(ops) if k != j]
                yield c
        # drop attributes
        for j, op in enumerate(ops):
            for k in list((op.get('attrs') or {})):
                if k == 'channels':
                    continue
                if op['t'] == 'origin' and k in ('file_set_number', 'creation_time'):
                    continue      # pinned on purpose: without them two writes of one spec differ (random / now())
                c = copy.deepcopy(case)
                del c['lfs'][i]['ops'][j]['attrs'][k]
                yield c
            for k in ('set', 'oref', 'cast', 'dsname'):
                if op.get(k) is not None:
                    c = copy.deepcopy(case)
                    c['lfs'][i]['ops'][j].pop(k)
                    yield c
            d = op.get('data')
            if isinstance(d, dict) and d.get('layout', 'C') != 'C':
                c = copy.deepcopy(case)
                c['lfs'][i]['ops'][j]['data'].pop('layout')
                yield c
            if isinstance(d, dict) and 'special' in d:
                c = copy.deepcopy(case)
                c['lfs'][i]['ops'][j]['data'].pop('special')
                yield c
    w = case.get('write') or {}
    for k in list(w):
        c = copy.deepcopy(case)
        del c['write'][k]
        yield c
    sul = case.get('sul') or {}
    for k in [k for k in sul if k != 'vrl']:
        c = copy.deepcopy(case)
        del c['sul'][k]
        yield c
    for i, lf in enumerate(case['lfs']):
        if lf.get('hdr'):
            c = copy.deepcopy(case)
            c['lfs'][i]['hdr'] = {}
            yield c


def minimize(case, sig, run, budget=150):
    """run(case) -> set of signatures (or raises). Returns (smaller case, executions used)."""
    used = 0
    best = case
    progress = True
    while progress and used < budget:
        progress = False
        for cand in candidates(best):
            if used >= budget:
                break
            used += 1
            try:
                sigs = run(cand)
            except Exception:
                continue
            if sig in sigs:
                best = cand
                progress = True
                break
    return best, used
