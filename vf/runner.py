"""Parent process of a property check: spawns the shards, merges, applies known findings, writes evidence.

Exit codes: 0 held on everything explored; 1 violation(s) (one "VIOLATION property=<id> replay=<path>" line
each); 2 harness error / inconclusive.
"""
import argparse
import glob
import importlib
import json
import os
import shutil
import subprocess
import sys
import tempfile
import time

import numpy as np

from vf.core import sig_slug, compact

VERIF = os.path.dirname(os.path.dirname(os.path.abspath(__file__)))


def load_known(prop_id):
    """known_findings.txt lines:
         finding: property=C07 sig=<signature> witness=<path> :: description
         fixed: property=C15 <commit> <what failed>
    Returns [{'sig':..., 'witness':..., 'desc':...}] for this property (fixed entries suppress nothing).
    """
    out = []
    path = os.path.join(VERIF, 'known_findings.txt')
    if not os.path.exists(path):
        return out
    for line in open(path):
        line = line.strip()
        if not line.startswith('finding:'):
            continue
        head, _, desc = line[len('finding:'):].partition('::')
        fields = dict(tok.split('=', 1) for tok in head.split() if '=' in tok)
        if fields.get('property') != prop_id:
            continue
        out.append({'sig': fields.get('sig', ''), 'witness': fields.get('witness', ''), 'desc': desc.strip()})
    return out


def run_fuzz(targets, seed, outdir, env):
    """atheris campaigns: {target module: runs per shard}; 8 shards each, empty corpus, -seed derived from VERIF_SEED.
    Returns (stats, [case files for replay])."""
    import re
    fz = os.path.join(outdir, 'fuzz')
    os.makedirs(fz, exist_ok=True)
    fenv = dict(env, FUZZ_OUT=fz)
    procs = []
    for t, runs in targets.items():
        for i in range(8):
            cdir = os.path.join(fz, f'{t}-{i}')
            os.makedirs(cdir, exist_ok=True)
            log = open(os.path.join(fz, f'{t}-{i}.log'), 'w')
            # each shard writes its failing input into its own directory
            procs.append((t, i, subprocess.Popen(
                [sys.executable, os.path.join(VERIF, 'vf', 'fuzz', t + '.py'), f'-runs={runs}',
                 f'-seed={seed * 100 + i + 1}', f'-artifact_prefix={cdir}/', cdir], cwd=VERIF, env=dict(fenv, FUZZ_OUT=cdir),
                stdout=log, stderr=subprocess.STDOUT)))
    stats = {'runs_per_shard': dict(targets), 'shards': 8, 'executions': 0, 'crashing_inputs': 0, 'edges_covered': {}}
    files = []
    for t, i, p in procs:
        p.wait()
        txt = open(os.path.join(fz, f'{t}-{i}.log'), errors='replace').read()
        m = re.findall(r"#(\d+)\s+(?:DONE|pulse|NEW|REDUCE)\s+cov: (\d+)", txt)
        if m:
            stats['executions'] += int(m[-1][0])
            stats['edges_covered'][t] = max(stats['edges_covered'].get(t, 0), int(m[-1][1]))
        for f in glob.glob(os.path.join(fz, f'{t}-{i}', 'failing-*.json')):
            stats['crashing_inputs'] += 1
            files.append(f)
    return stats, files


def main():
    ap = argparse.ArgumentParser()
    ap.add_argument('prop')
    ap.add_argument('--tier', default=os.environ.get('VERIF_TIER', 'quick') or 'quick')
    ap.add_argument('--replay', default=None)
    ap.add_argument('--shards', type=int, default=int(os.environ.get('VERIF_SHARDS', '16')))
    ap.add_argument('--no-evidence', action='store_true')
    args = ap.parse_args()
    pid = args.prop.upper()
    tier = 'thorough' if args.tier.startswith('t') else 'quick'
    seed = int(os.environ.get('VERIF_SEED', '0') or 0)
    t0 = time.time()
    fuzz_stats = None

    mod = importlib.import_module('vf.props.' + pid.lower())
    prop = mod.PROP
    known = load_known(pid)
    known_sigs = sorted({k['sig'] for k in known})

    outdir = tempfile.mkdtemp(prefix=f'verif-run-{pid}-')
    env = dict(os.environ)
    env['VERIF_SEED'] = str(seed)
    procs = []
    try:
        if args.replay:
            cmd = [sys.executable, '-m', 'vf.worker', pid, '--tier', tier, '--shard', '0', '--nshards', '1',
                   '--out', outdir, '--replay', os.path.abspath(args.replay), '--replay-only',
                   '--known', json.dumps(known_sigs)]
            procs.append(subprocess.Popen(cmd, cwd=VERIF, env=env, stdout=subprocess.DEVNULL))
            nsh = 1
        else:
            nsh = max(1, args.shards)
            corpus = sorted(glob.glob(os.path.join(VERIF, 'corpus', pid, '*.json')))
            if tier == 'thorough' and getattr(prop, 'fuzz_targets', None):
                # coverage-guided campaign first; inputs that trip the in-target oracle are replayed through the
                # property's own run() below (shard 0), so a libFuzzer crash alone never decides anything
                fuzz_stats, crash_files = run_fuzz(prop.fuzz_targets, seed, outdir, env)
                corpus = corpus + crash_files
            for i in range(nsh):
                cmd = [sys.executable, '-m', 'vf.worker', pid, '--tier', tier, '--shard', str(i), '--nshards',
                       str(nsh), '--out', outdir, '--known', json.dumps(known_sigs)]
                if i == 0:
                    for c in corpus:
                        cmd += ['--replay', c]
                procs.append(subprocess.Popen(cmd, cwd=VERIF, env=env, stdout=subprocess.DEVNULL))
        rcs = [p.wait() for p in procs]
    except BaseException:
        for p in procs:
            try:
                p.kill()
            except Exception:
                pass
        raise

    merged = {'evaluations': 0, 'labels': {}, 'outcomes': {}, 'samples': [], 'known_hits': {}, 'found': {},
              'harness_errors': [], 'per_search': {}, 'replays': [], 'exhaustive': True, 'extra': {}}
    digests = []
    for i in range(nsh):
        jp = os.path.join(outdir, f'shard_{i}.json')
        if not os.path.exists(jp):
            err = ''
            ep = os.path.join(outdir, f'shard_{i}.stderr')
            if os.path.exists(ep):
                err = open(ep, errors='replace').read()[-2000:]
            merged['harness_errors'].append({'where': f'shard {i} produced no result (rc={rcs[i]})', 'traceback': err})
            continue
        d = json.load(open(jp))
        merged['evaluations'] += d['evaluations']
        for key in ('labels', 'outcomes', 'known_hits', 'per_search'):
            for k, v in d[key].items():
                merged[key][k] = merged[key].get(k, 0) + v
        for k, v in (d.get('extra') or {}).items():
            if isinstance(v, (int, float)):
                merged['extra'][k] = merged['extra'].get(k, 0) + v
        if len(merged['samples']) < 8:
            merged['samples'].extend(d['samples'][:2])
        merged['harness_errors'].extend(d['harness_errors'])
        merged['replays'].extend(d['replays'])
        merged['exhaustive'] = merged['exhaustive'] and d.get('exhaustive', False)
        for sig, rec in d['found'].items():
            cur = merged['found'].get(sig)
            if cur is None or len(json.dumps(rec['case'], default=str)) < len(json.dumps(cur['case'], default=str)):
                if cur is not None:
                    rec['count'] += cur['count']
                merged['found'][sig] = rec
            else:
                cur['count'] += rec['count']
        npy = os.path.join(outdir, f'shard_{i}.npy')
        if os.path.exists(npy):
            digests.append(np.load(npy))
    distinct = int(len(np.unique(np.concatenate(digests)))) if digests else 0
    shutil.rmtree(outdir, ignore_errors=True)

    status = 0
    lines = []

    # known findings: a "finding:" line prints KNOWN-FINDING when its witness still reproduces that signature
    witness_state = {}
    for rp in merged['replays']:
        witness_state[os.path.relpath(rp['path'], VERIF)] = rp['sigs']
    for k in known:
        w = k['witness']
        reproduced = k['sig'] in witness_state.get(w, []) or merged['known_hits'].get(k['sig'], 0) > 0
        if reproduced:
            lines.append(f"KNOWN-FINDING: property={pid} {k['desc']} [sig={k['sig']}]")

    # new violations
    replay_dir = os.path.join(VERIF, 'replays')
    viol = 0
    for sig, rec in sorted(merged['found'].items()):
        os.makedirs(replay_dir, exist_ok=True)
        path = os.path.join(replay_dir, f"{pid}-{sig_slug(sig)}.json")
        with open(path, 'w') as f:
            json.dump({'property': pid, 'signature': sig, 'detail': rec['detail'], 'found_by': rec.get('source'),
                       'seed': seed, 'tier': tier, 'case': rec['case']}, f, indent=1, default=str)
        lines.append(f"VIOLATION property={pid} replay={os.path.relpath(path, VERIF)}")
        lines.append(f"  signature: {sig}  ({rec['count']} hit(s))  {rec['detail'][:300]}")
        viol += 1
    if viol:
        status = 1

    problems = list(merged['harness_errors'])
    if not args.replay and not problems:
        for msg in prop.self_check(merged, tier):
            problems.append({'where': 'self-check', 'traceback': msg})
    if problems and status == 0:
        status = 2
    for p in problems[:5]:
        lines.append(f"HARNESS-ERROR property={pid} where={p.get('where')}")
        lines.append('  ' + (p.get('traceback') or '').strip().replace('\n', '\n  ')[-1500:])

    wall = round(time.time() - t0, 2)
    if not args.replay and not args.no_evidence:
        samples = [compact(s, 1200) for s in merged['samples'][:8]] or ['(no non-trivial case)']
        ev = {
            'property_id': pid, 'tier': tier, 'seed': seed, 'level': 'exploration',
            'coverage': {
                'evaluations': merged['evaluations'],
                'distinct_nontrivial': distinct,
                'rule': prop.rule,
                'samples': samples,
                'exhaustive': bool(merged['exhaustive'] and prop.enumerated_exhaustive_claim(tier)),
                'exhaustive_scope': prop.exhaustive_scope(tier),
                'class_histogram': dict(sorted(merged['labels'].items())),
                'outcome_histogram': dict(sorted(merged['outcomes'].items())),
                'per_search': dict(sorted(merged['per_search'].items())),
                'known_finding_hits': merged['known_hits'],
                'corpus_replays': len(merged['replays']),
                'shards': nsh,
                'technique': prop.technique,
                'extra': dict(merged['extra'], **({'atheris': fuzz_stats} if fuzz_stats else {})),
            },
            'assumptions': list(prop.assumptions),
            'wall_s': wall,
            'violations': viol,
        }
        os.makedirs(os.path.join(VERIF, 'evidence'), exist_ok=True)
        evp = os.path.join(VERIF, 'evidence', f'{pid}.json')
        try:
            import jsonschema
            schema_path = '/root/.vp/EVIDENCE.schema.json'
            if not os.path.exists(schema_path):
                schema_path = os.path.join(VERIF, 'schemas', 'EVIDENCE.schema.json')
            if os.path.exists(schema_path):
                jsonschema.validate(ev, json.load(open(schema_path)))
        except ImportError:
            pass
        except Exception as exc:
            lines.append(f"HARNESS-ERROR property={pid} where=evidence-schema {str(exc)[:300]}")
            if status == 0:
                status = 2
        with open(evp, 'w') as f:
            json.dump(ev, f, indent=1, default=str)

    if args.replay:
        for rp in merged['replays']:
            lines.append(f"REPLAY {rp['path']}: outcome={rp['outcome']} signatures={rp['sigs']}")
            for dline in rp['details']:
                lines.append('  ' + dline)
    lines.append(f"{pid} tier={tier} seed={seed} evaluations={merged['evaluations']} distinct_nontrivial={distinct} "
                 f"violations={viol} known_hits={sum(merged['known_hits'].values())} wall={wall}s "
                 f"status={'OK' if status == 0 else ('VIOLATION' if status == 1 else 'HARNESS-ERROR')}")
    print('\n'.join(lines))
    sys.exit(status)


if __name__ == '__main__':
    main()
