"""JSON encoding of specification values: arrays, date-times, references, enum members.

A spec is plain JSON so a shrunk failing case *is* the replay file.
  array   {"dt": "<f8", "shape": [n] | [n, w], "hex": "..."} or {"dt":..., "shape":..., "pat": [a, b]}
          optional "layout": "C" | "F" | "strided" | "neg" | "ro" | "view"
  datetime {"$dt": "2003-12-31T09:30:00.123456", "tz": minutes east of UTC | null} or {"$dt":.., "zone": "Europe/Berlin", "fold": 0|1}
  reference {"$ref": op_index}          (an earlier op of the same logical file)
  enum member {"$enum": ["Unit", "METER"]}   (member name of dliswriter.enums.<class>)
"""
from datetime import datetime, timedelta, timezone

import numpy as np


# ---------------------------------------------------------------- arrays

def array_nbytes(aj):
    n = 1
    for s in aj['shape']:
        n *= s
    return n * np.dtype(aj['dt']).itemsize


def logical_array(aj):
    """The logical content of an array spec as a C-contiguous array of dtype aj['dt'] (incl. byte order)."""
    dt = np.dtype(aj['dt'])
    shape = tuple(aj['shape'])
    nb = array_nbytes(aj)
    if 'hex' in aj:
        raw = bytes.fromhex(aj['hex'])
        if len(raw) != nb:
            raw = (raw * (nb // max(len(raw), 1) + 1))[:nb] if raw else bytes(nb)
    else:
        a, b = aj.get('pat', [7, 3])
        i = np.arange(nb, dtype=np.uint32)
        raw = (((i * (a | 1) + b) ^ (i >> 8)) & 0xFF).astype(np.uint8).tobytes()
    arr = np.frombuffer(raw, dtype=dt).reshape(shape).copy()
    for idx, hx in aj.get('special', []):
        flat = arr.reshape(-1)
        if flat.size:
            flat[idx % flat.size] = np.frombuffer(bytes.fromhex(hx), dtype=dt)[0]
    return arr


def make_array(aj):
    """Build the array the user would pass: logical content of `aj` in the requested memory layout."""
    base = logical_array(aj)
    layout = aj.get('layout', 'C')
    if layout == 'F' and base.ndim == 2:
        return np.asfortranarray(base)
    if layout == 'strided':
        big = np.frombuffer(b'\xa5' * (2 * base.nbytes), dtype=np.uint8).copy().view(base.dtype)
        big = big.reshape((base.shape[0] * 2,) + base.shape[1:])
        big[::2] = base
        return big[::2]
    if layout == 'neg':
        rev = base[::-1].copy()
        return rev[::-1]
    if layout == 'ro':
        base.flags.writeable = False
        return base
    if layout == 'view':
        big = np.zeros((base.shape[0] + 3,) + base.shape[1:], dtype=base.dtype)
        big[2:2 + base.shape[0]] = base
        return big[2:2 + base.shape[0]]
    return base


def array_spec_from(arr):
    arr = np.ascontiguousarray(arr)
    return {'dt': arr.dtype.str, 'shape': list(arr.shape), 'hex': arr.tobytes().hex()}


# ---------------------------------------------------------------- scalars

def enc_datetime(dt):
    tz = None
    if dt.tzinfo is not None:
        tz = int(dt.utcoffset().total_seconds() // 60)
    return {'$dt': dt.replace(tzinfo=None).isoformat(), 'tz': tz}


def dec_datetime(j):
    dt = datetime.fromisoformat(j['$dt'])
    if j.get('zone'):
        # a named zone (zoneinfo): the offset depends on the date, and on `fold` inside a repeated hour
        from zoneinfo import ZoneInfo
        return dt.replace(tzinfo=ZoneInfo(j['zone']), fold=j.get('fold', 0))
    if j.get('tz') is not None:
        dt = dt.replace(tzinfo=timezone(timedelta(minutes=j['tz'])))
    return dt


def zones_available():
    try:
        from zoneinfo import ZoneInfo
        ZoneInfo('Europe/Berlin'), ZoneInfo('America/New_York'), ZoneInfo('Australia/Sydney')
        return True
    except Exception:
        return False


def is_dt(j):
    return isinstance(j, dict) and '$dt' in j


def is_ref(j):
    return isinstance(j, dict) and '$ref' in j


def is_enum(j):
    return isinstance(j, dict) and '$enum' in j


def to_python(j, resolve_ref):
    """JSON value -> the Python value handed to the public API."""
    if isinstance(j, list):
        return [to_python(x, resolve_ref) for x in j]
    if isinstance(j, dict):
        if '$dt' in j:
            return dec_datetime(j)
        if '$ref' in j:
            return resolve_ref(j['$ref'])
        if '$enum' in j:
            from dliswriter import enums
            return getattr(enums, j['$enum'][0])[j['$enum'][1]]
        if '$tuple' in j:
            return tuple(to_python(x, resolve_ref) for x in j['$tuple'])
        raise ValueError(f"unknown value encoding {j}")
    return j


def flatten(v):
    if isinstance(v, list):
        out = []
        for x in v:
            out.extend(flatten(x))
        return out
    if isinstance(v, dict) and '$tuple' in v:
        return flatten(v['$tuple'])
    return [v]
