"""Expected decoded model, derived from the specification alone (never from dliswriter objects).

Encodes only documented semantics (README, docs/, docstrings, RP66): labels per keyword, value conversions per
attribute kind, documented write-time defaults.
"""
import math
import os
from datetime import datetime, timezone, timedelta

import numpy as np

from vf.spec import model
from vf.spec.build import call_order, dataset_names
from vf.spec.table import TYPES, ENUMS

# member name -> value for the enum members the generators use (copied from the docs' enum listing)
UNIT_MEMBERS = {'METER': 'm', 'SECOND': 's', 'FOOT': 'ft', 'INCH': 'in', 'KELVIN': 'K', 'DEGREE_CELSIUS': 'degC',
                'POUND_PER_SQUARE_INCH': 'psi', 'API_GAMMA_RAY': 'gAPI', 'AMPERE': 'A', 'TESLA': 'T'}
ENUM_MEMBERS = {
    'Unit': UNIT_MEMBERS,
    'ZoneDomain': {'BOREHOLE_DEPTH': 'BOREHOLE-DEPTH', 'TIME': 'TIME', 'VERTICAL_DEPTH': 'VERTICAL-DEPTH'},
    'FrameIndexType': {'BOREHOLE_DEPTH': 'BOREHOLE-DEPTH', 'VERTICAL_DEPTH': 'VERTICAL-DEPTH',
                       'ANGULAR_DRIFT': 'ANGULAR-DRIFT', 'RADIAL_DRIFT': 'RADIAL-DRIFT', 'NON_STANDARD': 'NON-STANDARD'},
    'ProcessStatus': {'COMPLETE': 'COMPLETE', 'ABORTED': 'ABORTED', 'IN_PROGRESS': 'IN-PROGRESS'},
    'Property': {'AVERAGED': 'AVERAGED', 'CALIBRATED': 'CALIBRATED', 'COMPUTED': 'COMPUTED', 'DERIVED': 'DERIVED',
                 'FILTERED': 'FILTERED', 'SPLICED': 'SPLICED', 'STD': 'STANDARD-DEVIATION'},
    'EquipmentType': {'ADAPTER': 'Adapter', 'TOOL': 'Tool', 'SONDE': 'Sonde', 'CABLE': 'Cable'},
    'EquipmentLocation': {'LOGGING_SYSTEM': 'Logging-System', 'REMOTE': 'Remote', 'RIG': 'Rig', 'WELL': 'Well'},
    'CalibrationMeasurementPhase': {'AFTER': 'AFTER', 'BEFORE': 'BEFORE', 'MASTER': 'MASTER'},
}

CODE_OF_DTYPE = {'int8': 12, 'int16': 13, 'int32': 14, 'uint8': 15, 'uint16': 16, 'uint32': 17, 'float32': 2,
                 'float64': 7}
FLOAT_CODES = set(range(1, 12))
INT_CODES = {12, 13, 14, 15, 16, 17, 18}
NUMERIC_CODES = FLOAT_CODES | INT_CODES


def local_tz():
    """Naive date-times mean local time (Python's astimezone convention); runs pin TZ."""
    return datetime.now().astimezone().tzinfo


def dt_instants(j):
    """Acceptable UTC instants (ms resolution: floor, round clamped to 999, round with carry) for a
    date-time value given as {'$dt'..} or a 'Y/m/d H:M:S' string."""
    if isinstance(j, str):
        dt = None
        for fmt in ("%Y/%m/%d %H:%M:%S", "%Y.%m.%d %H:%M:%S"):
            try:
                dt = datetime.strptime(j, fmt)
                break
            except ValueError:
                pass
        if dt is None:
            raise ValueError(j)
    else:
        dt = model.dec_datetime(j)
    if dt.tzinfo is None:
        dt = dt.astimezone()      # local time, as the documented conversion does
    dt = dt.astimezone(timezone.utc)
    base = dt.replace(microsecond=0)
    us = dt.microsecond
    # floor; round clamped to 999 (what the library does); round with the carry into the next second
    out = {base + timedelta(milliseconds=us // 1000), base + timedelta(milliseconds=min(round(us / 1000), 999)),
           base + timedelta(milliseconds=round(us / 1000))}
    return out


class ExpAttr:
    __slots__ = ('label', 'kind', 'values', 'units', 'raw', 'empty', 'a')

    def __init__(self, a, j):
        self.a = a
        self.label = a.label
        self.kind = a.kind
        self.raw = j
        v = j.get('v')
        self.empty = isinstance(v, list) and len(model.flatten(v)) == 0
        flat = model.flatten(v) if isinstance(v, list) else [v]
        self.values = flat
        u = j.get('u')
        if isinstance(u, dict) and '$enum' in u:
            u = ENUM_MEMBERS[u['$enum'][0]][u['$enum'][1]]
        self.units = u


class ExpObj:
    def __init__(self, lf, j, op, kind):
        self.lf = lf
        self.op_index = j
        self.op = op
        self.kind = kind
        self.set_type = TYPES[kind]['set_type']
        self.set_name = op.get('set') or None       # an empty set name is written as 'no name': the unnamed set
        self.name = op['name']
        self.attrs = {}
        for k, aj in (op.get('attrs') or {}).items():
            a = TYPES[kind]['attrs'][k]
            self.attrs[a.label] = ExpAttr(a, aj)


class ExpFrame:
    def __init__(self, obj, channels):
        self.obj = obj
        self.channels = channels      # list of (op_index, ExpObj)
        self.rows = 0
        self.slot_bytes = []          # per channel: list of row bytes
        self.written = []             # per channel: written (windowed, cast) array in native order


def written_array(op, window, data=None):
    """The array the file must hold for a channel: windowed rows, cast if requested."""
    arr = model.logical_array(data if data is not None else op['data'])
    f, t = window
    arr = arr[f:t]
    native = arr.astype(arr.dtype.newbyteorder('='))
    if op.get('cast'):
        native = native.astype(np.dtype(op['cast'].lstrip('<>')))
    return native


class Expectation:
    def __init__(self, spec):
        self.spec = spec
        w = spec.get('write') or {}
        self.window = (w.get('from') or 0, w.get('to'))
        self.lfs = []
        for i, lf in enumerate(spec['lfs']):
            order = [j for (ii, j) in call_order(spec) if ii == i]
            objs = {}
            for j in order:
                op = lf['ops'][j]
                if op['t'] == 'nfdata':
                    continue
                objs[j] = ExpObj(i, j, op, op['t'])
            self.lfs.append({'order': order, 'objs': objs, 'ops': lf['ops'], 'hdr': lf.get('hdr') or {}})

    def sets_in_order(self, i):
        """[(kind, set_name, [op indices in call order])] for logical file i."""
        out = {}
        for j in self.lfs[i]['order']:
            o = self.lfs[i]['objs'].get(j)
            if o is None:
                continue
            out.setdefault((o.kind, o.set_name), []).append(j)
        return out

    def frames(self, i):
        res = []
        lf = self.lfs[i]
        for j in lf['order']:
            o = lf['objs'].get(j)
            if o is None or o.kind != 'frame':
                continue
            chans = [(r['$ref'], lf['objs'][r['$ref']]) for r in o.op['attrs']['channels']['v']]
            ef = ExpFrame(o, chans)
            for cj, co in chans:
                src = co.op.get('data_from')
                arr = written_array(co.op, self.window, lf['ops'][src]['data'] if src is not None else None)
                ef.written.append(arr)
                be = arr.astype(arr.dtype.newbyteorder('>'))
                ef.slot_bytes.append([be[r:r + 1].tobytes() for r in range(be.shape[0])])
            ef.rows = min(len(s) for s in ef.slot_bytes) if ef.slot_bytes else 0
            res.append(ef)
        return res

    def noformat(self, i):
        """[(target op index, payload bytes)] in call order."""
        lf = self.lfs[i]
        out = []
        for j in lf['order']:
            op = lf['ops'][j]
            if op['t'] == 'nfdata':
                out.append((op['target']['$ref'], bytes.fromhex(op['payload']['hex'])))
        return out

    def header_id(self, i):
        h = self.lfs[i]['hdr']
        return h.get('id_later', h.get('id', 'FILE-HEADER'))

    def header_seq(self, i):
        return self.lfs[i]['hdr'].get('seq', 1)


def num_equal(decoded, expected):
    """Equality of numbers with NaN == NaN and -0.0 == 0.0 (byte-level differences are C14's business)."""
    try:
        if isinstance(expected, float) and math.isnan(expected):
            return isinstance(decoded, float) and math.isnan(decoded)
        return decoded == expected
    except Exception:
        return False
