"""Compare a decoded file (vf.rp66) with the expectation derived from the specification.

Every checker returns a list of (kind, where, detail) tuples; property modules turn them into signatures.
"""
import math

from vf.rp66.codes import dtime_to_utc
from vf.spec import model
from vf.spec.expect import (Expectation, dt_instants, num_equal, CODE_OF_DTYPE, FLOAT_CODES, INT_CODES, NUMERIC_CODES,
                            ENUM_MEMBERS, local_tz)
from vf.spec.table import TYPES, ANY, SET_TYPE_TO_KIND

# Acceptable representation codes per attribute kind. The property asks for an equal value under the standard label "in
# the chosen representation code", so any code of the right class that represents the value is accepted (the exact codes
# RP66 prescribes per attribute are not demanded).
TEXT_CODES = {19, 20, 27}
INT_CLASS = {12, 13, 14, 15, 16, 17, 18, 22}
FIXED_CODE = {'text': TEXT_CODES, 'ident': TEXT_CODES, 'uvari': INT_CLASS, 'unorm': INT_CLASS, 'ushort': INT_CLASS,
              'encrypted': INT_CLASS | {26}, 'fdoubl': set(range(1, 12)), 'status': {26, 15}, 'dim': INT_CLASS,
              'dtime': {21}}


def map_objects(dlf, exp, i):
    """Match decoded objects with spec ops by (set type, set name, position). Returns (opmap, problems)."""
    problems = []
    opmap = {}
    groups = exp.sets_in_order(i)
    seen_sets = set()
    for (kind, sname), ops in groups.items():
        stype = TYPES[kind]['set_type']
        cands = [(ri, s) for ri, s in dlf.sets if s.type == stype and s.name == sname]
        if not cands:
            problems.append(('set-missing', stype, f"set {stype!r} name {sname!r} with {len(ops)} objects is not in "
                                                   f"logical file {i}"))
            continue
        if len(cands) > 1:
            problems.append(('set-duplicate', stype, f"{len(cands)} sets {stype!r} name {sname!r}"))
        ri, s = cands[0]
        seen_sets.add(id(s))
        if len(s.objects) != len(ops):
            names = [o.name[2] for o in s.objects]
            kindp = 'object-extra' if len(s.objects) > len(ops) else 'object-missing'
            problems.append((kindp, stype, f"set {stype!r}/{sname!r}: file has {len(s.objects)} objects {names[:8]}, "
                                           f"specification has {len(ops)}"))
        for k, j in enumerate(ops):
            if k >= len(s.objects):
                break
            o = s.objects[k]
            eo = exp.lfs[i]['objs'][j]
            if o.name[2] != eo.name:
                problems.append(('object-name', stype, f"object {k} of {stype!r}: file {o.name[2]!r}, spec {eo.name!r}"))
            opmap[j] = (o, s, ri)
    for ri, s in dlf.sets:
        if s.type == 'FILE-HEADER' or id(s) in seen_sets:
            continue
        problems.append(('set-extra', s.type, f"set {s.type!r} name {s.name!r} with objects "
                                              f"{[o.name[2] for o in s.objects][:6]} was not specified for "
                                              f"logical file {i}"))
    return opmap, problems


def resolve_reference(dlf, value, code, targets):
    """All decoded objects a reference value designates in this logical file."""
    if code == 24:
        return [x[0] for x in dlf.find(value[0], value[1:])]
    if code == 23:
        out = []
        if targets == ANY or targets is None:
            types = sorted({s.type for _, s in dlf.sets})
        else:
            types = [TYPES[t]['set_type'] for t in targets]
        for st in types:
            out.extend(x[0] for x in dlf.find(st, value))
        return out
    return []


def _expected_scalar(ea, v):
    """Expected decoded value of one element for attribute kind ea.kind."""
    k = ea.kind
    if isinstance(v, dict) and '$enum' in v:
        return ENUM_MEMBERS[v['$enum'][0]][v['$enum'][1]]
    if k in ('num', 'fdoubl'):
        return float(v)
    if k in ('int', 'uvari', 'unorm', 'ushort', 'dim', 'status', 'encrypted'):
        return int(v)
    if k == 'dtnum' and not isinstance(v, dict) and not is_dt_text(v):
        return float(v)         # a number, or a number given as text
    return v


def is_dt_text(v):
    """Text in one of the two documented date-time formats (anything else given as text to a date-time-or-number
    attribute is a number in text form)."""
    if not isinstance(v, str):
        return False
    from datetime import datetime as _dt
    for fmt in ("%Y/%m/%d %H:%M:%S", "%Y.%m.%d %H:%M:%S"):
        try:
            _dt.strptime(v, fmt)
            return True
        except ValueError:
            pass
    return False


def compare_attr(dlf, da, ea, opmap, where, alt_units=None, alt_values=None):
    """Decoded attribute `da` vs expected attribute `ea`. Returns problems.

    alt_units: additional acceptable units (documented inheritance); alt_values: an alternative acceptable value list.
    """
    out = []
    lab = ea.label
    if ea.empty:
        if not (da is None or da.absent or da.values is None or da.count == 0):
            out.append(('attr-empty-list-has-values', lab, f"{where}: assigned [] but file has {da.values!r}"))
        return out
    if da is None or da.absent or da.values is None:
        out.append(('attr-assigned-but-absent', lab, f"{where}: {lab} was assigned {str(ea.raw.get('v'))[:80]}"))
        return out
    exp_vals = ea.values
    if len(da.values) != len(exp_vals):
        out.append(('attr-count', lab, f"{where}: {lab} has {len(da.values)} values, {len(exp_vals)} assigned"))
        return out
    if alt_values is not None and da.values == alt_values:
        return out
    if (da.units or '') != (ea.units or '') and not (ea.units is None and alt_units and (da.units or '') in alt_units):
        out.append(('attr-units', lab, f"{where}: {lab} units {da.units!r}, assigned {ea.units!r}"))
    k = ea.kind
    fixed = FIXED_CODE.get(k.split(':')[0] if ':' in k else k)
    if k.startswith('soft:') or k.startswith('hard:'):
        fixed = TEXT_CODES
    if fixed and da.code not in fixed:
        out.append(('attr-code', lab, f"{where}: {lab} written with code {da.code}, not one of the class {sorted(fixed)}"))
    for n, (dv, ev) in enumerate(zip(da.values, exp_vals)):
        ok = True
        if k in ('ref', 'anyref') or (k == 'reftext' and isinstance(ev, dict)):
            if da.code not in (23, 24):
                out.append(('attr-code', lab, f"{where}: {lab} reference written with code {da.code}, not OBNAME/OBJREF"))
                break
            found = resolve_reference(dlf, dv, da.code, ea.a.targets)
            tgt = opmap.get(ev['$ref'])
            if len(found) > 1 and da.code == 23 and ea.a.targets == ANY and tgt is not None \
                    and any(f is tgt[0] for f in found):
                # a type-less OBNAME for an any-type attribute (COMPUTATION.SOURCE) cannot distinguish objects of
                # different types sharing origin/copy/name; judged by C07, excluded (and counted) here
                out.append(('excluded-typeless-ambiguity', lab, where))
                continue
            if len(found) != 1:
                out.append(('ref-ambiguous' if found else 'ref-unresolved', lab,
                            f"{where}: {lab}[{n}] = {dv} designates {len(found)} objects"))
                continue
            if tgt is None or found[0] is not tgt[0]:
                out.append(('ref-wrong-target', lab, f"{where}: {lab}[{n}] = {dv} is not the object the user passed "
                                                     f"(op {ev['$ref']})"))
            continue
        if k in ('dtime', 'dtnum') and (isinstance(ev, dict) or is_dt_text(ev)):
            if da.code != 21 or not isinstance(dv, dict):
                out.append(('attr-code', lab, f"{where}: {lab} date-time written with code {da.code}"))
                break
            inst = dtime_to_utc(dv, local_tz())
            if inst not in dt_instants(ev):
                out.append(('attr-value-dtime', lab, f"{where}: {lab} decodes to {inst.isoformat()}, assigned {ev}"))
            continue
        e = _expected_scalar(ea, ev)
        if isinstance(e, str):
            ok = isinstance(dv, str) and dv == e
            if not ok and k == 'generic' and not isinstance(dv, str):
                # text that denotes a number may be written as that number (the library's value conversion for
                # parameter values, computation values and axis coordinates): both forms are faithful
                try:
                    ok = num_equal(dv, float(e) if '.' in e else int(e))
                except ValueError:
                    ok = False
        elif isinstance(e, bool):
            ok = num_equal(dv, int(e))
        elif isinstance(e, (int, float)):
            if da.code not in NUMERIC_CODES and da.code != 26:
                out.append(('attr-code', lab, f"{where}: {lab} number written with non-numeric code {da.code}"))
                break
            if da.code == 2 and isinstance(e, float) and not math.isnan(e):
                import numpy as np
                with np.errstate(over='ignore'):
                    e = float(np.float32(e))
            ok = num_equal(dv, e)
        else:
            ok = dv == e
        if not ok:
            out.append(('attr-value', lab, f"{where}: {lab}[{n}] decodes to {dv!r}, assigned {ev!r}"))
            break
    return out


def allowed_default(eo, label, da, exp, i, frames_info=None):
    """Is a never-assigned attribute that is present in the file a documented write-time default?"""
    kind = eo.kind
    if kind == 'origin':
        if label == 'FILE-ID':
            return da.values == [exp.header_id(i)]
        if label == 'FILE-SET-NUMBER':
            return da.code == 18 and len(da.values) == 1 and da.values[0] >= 1
        if label == 'CREATION-TIME':
            return da.code == 21 and len(da.values) == 1
        if label == 'FIELD-NAME':
            return da.values == ['WILDCAT']
    if kind == 'channel':
        if label == 'LONG-NAME':
            return da.values == [eo.name]
        if label in ('REPRESENTATION-CODE', 'DIMENSION', 'ELEMENT-LIMIT'):
            return True      # judged by C08
    if kind == 'frame':
        if label in ('INDEX-MIN', 'INDEX-MAX', 'SPACING', 'DIRECTION'):
            return True      # judged by C13
    if kind in ('parameter', 'computation') and label == 'DIMENSION':
        return 'VALUES' in eo.attrs
    if kind == 'calibration_measurement' and label == 'DIMENSION':
        return any(l in eo.attrs for l in ('MAXIMUM-DEVIATION', 'STANDARD-DEVIATION', 'STANDARD', 'PLUS-TOLERANCE',
                                           'MINUS-TOLERANCE'))
    return False


def check_metadata(dlf, exp, i, opmap):
    """C05 oracle for logical file i."""
    out = []
    for j, eo in exp.lfs[i]['objs'].items():
        if j not in opmap:
            continue
        o, s, ri = opmap[j]
        where = f"{eo.set_type}:{eo.name}"
        for lab, ea in eo.attrs.items():
            da = o.attrs.get(lab)
            if da is None and not any(t.label == lab for t in s.template):
                out.append(('label-missing-in-template', f"{eo.kind}.{lab}",
                            f"{where}: set template has no attribute {lab!r} (labels: "
                            f"{[t.label for t in s.template][:30]})"))
                continue
            if 'v' not in ea.raw:
                # units only (no value assigned): whatever value the writer derives, it carries the user's units
                if da is not None and not da.absent and da.values is not None and (da.units or '') != (ea.units or ''):
                    out.append(('attr-units', f"{eo.kind}.{lab}", f"{where}: {lab} units {da.units!r}, the user assigned "
                                                                  f"{ea.units!r} (without a value)"))
                continue
            alt_units = alt_values = None
            if eo.kind == 'frame' and lab in ('INDEX-MIN', 'INDEX-MAX', 'SPACING') and 'INDEX-TYPE' in eo.attrs:
                # documented: the index attributes take the units of the index channel unless units were given
                first = eo.op['attrs']['channels']['v'][0]['$ref']
                cu = exp.lfs[i]['objs'][first].attrs.get('UNITS')
                if cu is not None:
                    u0 = _expected_scalar(cu, cu.values[0])
                    alt_units = {u0}
            if eo.kind == 'channel' and lab == 'ELEMENT-LIMIT':
                # documented: "dimension and element limit should have the same value"; the writer may normalise
                dd = o.attrs.get('DIMENSION')
                alt_values = dd.values if dd is not None else None
            for kind_, l_, d_ in compare_attr(dlf, da, ea, opmap, where, alt_units, alt_values):
                out.append((kind_, f"{eo.kind}.{l_}", d_))
        for lab, da in o.attrs.items():
            if lab in eo.attrs or da.absent or da.values is None:
                continue
            if not allowed_default(eo, lab, da, exp, i):
                out.append(('attr-unassigned-but-present', f"{eo.kind}.{lab}",
                            f"{where}: {lab} = {da.values!r} was never assigned and is not a documented default"))
    return out


def check_frames(dlf, exp, i, opmap):
    """C03 oracle: one numbered FDATA record per input row, slots bit-exact in the frame's channel order."""
    out = []
    stats = {'frames': 0, 'rows': 0}
    for ef in exp.frames(i):
        j = ef.obj.op_index
        if j not in opmap:
            continue
        fo = opmap[j][0]
        rows = dlf.frame_rows.get(fo.name, [])
        where = f"frame {ef.obj.name!r}"
        stats['frames'] += 1
        stats['rows'] += len(rows)
        if len(rows) != ef.rows:
            out.append(('fdata-row-count', 'rows', f"{where}: file has {len(rows)} records, input has {ef.rows} rows"))
        nums = [r.number for r in rows]
        if nums != list(range(1, len(rows) + 1)):
            bad = next((k for k, n in enumerate(nums) if n != k + 1), None)
            out.append(('fdata-numbering', 'numbers', f"{where}: frame numbers {nums[:12]} (first wrong at {bad})"))
        done = False
        for r, row in enumerate(rows[:ef.rows]):
            if len(row.slots) != len(ef.channels):
                out.append(('fdata-slot-count', 'slots', f"{where} row {r + 1}: {len(row.slots)} slots, "
                                                         f"{len(ef.channels)} channels"))
                break
            for c, (cj, co) in enumerate(ef.channels):
                if row.slots[c] != ef.slot_bytes[c][r]:
                    dd = co.op.get('data') or exp.lfs[i]['ops'][co.op['data_from']]['data']
                    dts = dd['dt']
                    twod = len(dd['shape']) > 1
                    out.append(('fdata-slot-bytes', f"{dts[0]}{'2d' if twod else '1d'}"
                                                    f"{'+cast' if co.op.get('cast') else ''}",
                                f"{where} row {r + 1} channel {co.name!r} ({dts}, shape {dd['shape']}, "
                                f"layout {dd.get('layout', 'C')}): file {row.slots[c][:16].hex()} "
                                f"expected {ef.slot_bytes[c][r][:16].hex()}"))
                    done = True
                    break
            if done:
                break
    return out, stats


def check_noformat(dlf, exp, i, opmap):
    """C16 oracle: type-1 IFLRs in file order == payloads in add order, each under its object."""
    out = []
    want = exp.noformat(i)
    have = dlf.noformat
    if len(have) != len(want):
        out.append(('noformat-count', 'count', f"file has {len(have)} no-format records, {len(want)} were added"))
    for k, ((tj, payload), (name, body, ri)) in enumerate(zip(want, have)):
        tgt = opmap.get(tj)
        if tgt is None or tgt[0].name != name:
            out.append(('noformat-target', 'target', f"record {k} is under {name}, added to "
                                                     f"{tgt[0].name if tgt else None}"))
            continue
        if body != payload:
            if len(body) != len(payload):
                cls = 'short' if len(payload) < 12 else 'long'
                out.append(('noformat-payload-length', cls,
                            f"record {k}: file has {len(body)} bytes, payload had {len(payload)} "
                            f"(file tail {body[-8:].hex()})"))
            else:
                out.append(('noformat-payload-bytes', 'bytes', f"record {k}: payload bytes differ"))
    return out
