"""Turn a JSON specification into public-API calls on dliswriter and write the file.

spec = {"kind": "spec",
        "sul": {"id": str|None, "seq": int, "vrl": int, "route": "kw"|"obj"},
        "lfs": [{"hdr": {"id": str, "ident": "0", "seq": 1, "route": "kw"|"obj"}, "ops": [op, ...]}],
        "order": None | [[lf_index, op_index], ...],       # global call order (default: lf by lf)
        "write": {"ics": None|int, "ocs": None|int|float, "source": "inline"|"dict"|"struct"|"hdf5",
                  "from": 0, "to": None, "opts": {...}},
        "hc": bool}
op   = {"t": <kind from table.TYPES> | "nfdata", "name": str, "set": None|str,
        "oref": None | int | {"$origin": op_index}, "attrs": {keyword: {"v": value, "u": units|None, "r": route}},
        channel only: "data": array-json|None, "dsname": None|str, "cast": None|dtype-name,
        nfdata only:  "target": {"$ref": i}, "payload": {"k": "bytes"|"bytearray"|"str", "hex": "..."}}
route: "kw" plain keyword | "dict" {'value','units'} dict | "setup" AttrSetup | "later" attribute .value/.units
"""
import os
from datetime import datetime, timezone

import numpy as np

from vf import dw
from vf.spec import model
from vf.spec.table import TYPES


class BuildError(Exception):
    """The public API raised while the specification was being built."""

    def __init__(self, exc, lf, op):
        super().__init__(f"{type(exc).__name__}: {exc} (lf {lf}, op {op})")
        self.exc = exc
        self.lf = lf
        self.op = op


class Built:
    def __init__(self):
        self.df = None
        self.lfs = []
        self.items = {}      # (lf, op) -> created item
        self.closers = []
        self.supplied = {}   # name -> array handed to dliswriter (for C19)
        self.data_arg = None
        self.rejected = []
        self.accepted_bad = []


def cast_dtype_of(name):
    """'float32' -> np.float32 (a type); '>float32' / '<float32' -> np.dtype with that explicit byte order."""
    if name[0] in '<>':
        return np.dtype(getattr(np, name[1:])).newbyteorder(name[0])
    return getattr(np, name)


def call_order(spec):
    if spec.get('order'):
        return [tuple(x) for x in spec['order']]
    return [(i, j) for i, lf in enumerate(spec['lfs']) for j in range(len(lf['ops']))]


def _units_value(u):
    if isinstance(u, dict) and '$enum' in u:
        from dliswriter import enums
        return getattr(enums, u['$enum'][0])[u['$enum'][1]]
    return u


_SCRATCH = {'list': None}


def _attr_arg(a, resolve):
    """Keyword argument for one attribute according to its route ('later' handled by the caller)."""
    arg = _attr_arg_inner(a, resolve)
    scratch = _SCRATCH['list']
    if scratch is not None and not _SCRATCH.get('used_in_call') and isinstance(arg, list) and arg \
            and all(hasattr(x, 'origin_reference') for x in arg):
        # the caller re-uses one scratch list object from call to call (once per call: two arguments of one call
        # cannot be the same list)
        _SCRATCH['used_in_call'] = True
        scratch.clear()
        scratch.extend(arg)
        return scratch
    return arg


def _attr_arg_inner(a, resolve):
    from dliswriter import AttrSetup
    if 'raw' in a:
        return a['raw']        # passed through verbatim (used for deliberately malformed arguments)
    v = model.to_python(a['v'], resolve) if 'v' in a else None
    u = _units_value(a.get('u'))
    r = a.get('r', 'kw')
    if r == 'dict':
        d = {}
        if 'v' in a:
            d['value'] = v
        if u is not None:
            d['units'] = u
        return d
    if r == 'setup':
        return AttrSetup(value=v, units=u)
    if u is not None:
        return {'value': v, 'units': u}
    return v


def build(spec, scratch=None, stop_at=None, tolerate_flagged=False):
    """Execute the specification through the public API. Raises BuildError if a call raises.

    With tolerate_flagged, ops carrying a 'bad' flag may raise (recorded in Built.rejected) or be accepted (recorded in
    Built.accepted_bad); building continues after them.
    """
    dw.check_import_location()
    from dliswriter import DLISFile, StorageUnitLabel
    from dliswriter.logical_record.eflr_types import FileHeaderItem, FileHeaderSet
    b = Built()
    sul = spec.get('sul') or {}
    vrl = sul.get('vrl_first', sul.get('vrl', 8192))     # 'vrl_first': the length at construction, changed afterwards
    try:
        kw = {}
        if sul.get('id') is not None:
            kw['set_identifier'] = sul['id']
        if sul.get('route') == 'obj':
            so = StorageUnitLabel(sul.get('id') if sul.get('id') is not None else 'MAIN-STORAGE-UNIT',
                                  sequence_number=sul.get('seq', 1), max_record_length=vrl)
            b.df = DLISFile(storage_unit_label=so)
        else:
            b.df = DLISFile(sul_sequence_number=sul.get('seq', 1), max_record_length=vrl, **kw)
        if 'vrl_first' in sul:
            # the maximum record length is a plain public field of the label: the value in force at write() counts
            b.df.storage_unit_label.max_record_length = sul.get('vrl', 8192)
    except Exception as exc:
        raise BuildError(exc, -1, 'sul')
    for i, lf in enumerate(spec['lfs']):
        h = lf.get('hdr') or {}
        try:
            if h.get('route') == 'obj':
                fh = FileHeaderItem(h.get('id', 'FILE-HEADER'), parent=FileHeaderSet(),
                                    sequence_number=h.get('seq', 1), identifier=h.get('ident', '0'))
                b.lfs.append(b.df.add_logical_file(file_header=fh))
            else:
                kw = {}
                if 'id' in h:
                    kw['fh_id'] = h['id']
                if 'ident' in h:
                    kw['fh_identifier'] = h['ident']
                if 'seq' in h:
                    kw['fh_sequence_number'] = h['seq']
                b.lfs.append(b.df.add_logical_file(**kw))
        except Exception as exc:
            raise BuildError(exc, i, 'hdr')

    wsrc = (spec.get('write') or {}).get('source', 'inline')
    inline_all = wsrc == 'inline'
    inline_ops = set(((spec.get('write') or {}).get('opts') or {}).get('inline_ops') or []) if wsrc == 'mixed' else set()
    _SCRATCH['list'] = [] if spec.get('reuse_ref_lists') else None
    reads = spec.get('reads') or []
    for n_done, (i, j) in enumerate(call_order(spec)):
        if stop_at is not None and n_done >= stop_at:
            break
        for ri, after, prop in reads:
            if after == n_done:
                getattr(b.lfs[ri], prop)        # a read-only look at the logical file between two add_* calls
        op = spec['lfs'][i]['ops'][j]
        lf = b.lfs[i]
        _SCRATCH['used_in_call'] = False

        def resolve(k, _i=i):
            if isinstance(k, list):         # [logical file, op]: an object of ANOTHER logical file (must-reject cases)
                return b.items[(k[0], k[1])]
            return b.items[(_i, k)]

        try:
            if op['t'] == 'nfdata':
                p = op['payload']
                raw = bytes.fromhex(p['hex'])
                data = raw if p['k'] == 'bytes' else (bytearray(raw) if p['k'] == 'bytearray' else raw.decode('ascii'))
                b.items[(i, j)] = lf.add_no_format_frame_data(resolve(op['target']['$ref']), data)
                continue
            t = TYPES[op['t']]
            kwargs = {}
            later = []
            for k, a in (op.get('attrs') or {}).items():
                if a.get('r') == 'later':
                    later.append((k, a))
                else:
                    kwargs[k] = _attr_arg(a, resolve)
            if op.get('set') is not None:
                kwargs['set_name'] = op['set']
            oref = op.get('oref')
            if oref is not None:
                if isinstance(oref, dict):
                    if '$origin_later' in oref:
                        # the explicit reference of an origin that is added later (given as a plain number)
                        oref = spec['lfs'][i]['ops'][oref['$origin_later']]['oref']
                    else:
                        oref = b.items[(i, oref['$origin'])].origin_reference
                kwargs['origin_reference'] = oref
            if op['t'] == 'channel':
                if op.get('data') is not None and (inline_all or j in inline_ops or op.get('data_inline')):
                    arr = model.make_array(op['data'])
                    kwargs['data'] = arr
                    b.supplied[f"{i}:{op.get('dsname') or op['name']}"] = arr
                if op.get('dsname') is not None:
                    kwargs['dataset_name'] = op['dsname']
                if op.get('cast') is not None:
                    kwargs['cast_dtype'] = cast_dtype_of(op['cast'])
                if op.get('cast_raw') is not None:      # verbatim: dtype-like strings, Python types (must-reject cases)
                    kwargs['cast_dtype'] = {'pyfloat': float, 'pyint': int}.get(op['cast_raw'], op['cast_raw'])
            if op.get('extra_kw'):
                kwargs.update(op['extra_kw'])
            item = getattr(lf, t['method'])(op['name'], **kwargs)
            b.items[(i, j)] = item
            if op['t'] == 'channel' and op.get('data_from') is not None:
                # the same dataset under another channel name (documented dataset_name setter)
                item.dataset_name = b.items[(i, op['data_from'])].dataset_name
            for k, a in later:
                attr = getattr(item, t['attrs'][k].py)
                if 'v' in a:
                    attr.value = model.to_python(a['v'], resolve)
                if a.get('u') is not None:
                    attr.units = _units_value(a['u'])
            for k, a in (op.get('attrs') or {}).items():
                if 'v_late' in a:       # a second value, assigned to the attribute after the object was created
                    getattr(item, t['attrs'][k].py).value = model.to_python(a['v_late'], resolve)
            if op.get('bad'):
                b.accepted_bad.append((i, j))
        except Exception as exc:
            if tolerate_flagged and op.get('bad'):
                b.rejected.append((i, j, exc))
                continue
            raise BuildError(exc, i, j)
    for i, lf in enumerate(spec['lfs']):
        h = lf.get('hdr') or {}
        if 'id_later' in h and stop_at is None:
            # the header id changed after the objects (and the origin, which copied the id into its FILE-ID) were added;
            # 'id_later_sync' also brings the defining origin's FILE-ID in line, as the write-time check demands
            try:
                b.lfs[i].file_header.header_id = h['id_later']
                if h.get('id_later_sync'):
                    b.lfs[i].defining_origin.file_id.value = h['id_later']
            except Exception as exc:
                raise BuildError(exc, i, 'hdr-later')
    return b


def dataset_names(spec, lf_index):
    """dataset name used by each channel op of a logical file, mirroring the documented default (channel name,
    or '<name>__<k>' when that dataset name is already taken)."""
    names = {}
    taken = []
    order = [j for (i, j) in call_order(spec) if i == lf_index]
    for j in order:
        op = spec['lfs'][lf_index]['ops'][j]
        if op['t'] != 'channel':
            continue
        if op.get('data_from') is not None:
            names[j] = names[op['data_from']]
            continue
        if op.get('dsname') is not None:
            n = op['dsname']
        elif op['name'] not in taken:
            n = op['name']
        else:
            k = 1
            while f"{op['name']}__{k}" in taken:
                k += 1
            n = f"{op['name']}__{k}"
        taken.append(n)
        names[j] = n
    return names


def make_source(spec, b, scratch):
    """Build the `data` argument of write() for non-inline sources. Single logical file sources only
    (a dict may serve several logical files when dataset names are distinct)."""
    w = spec.get('write') or {}
    src = w.get('source', 'inline')
    if src == 'inline':
        return None
    opts = w.get('opts') or {}
    arrays = {}
    mixed_inline = set(opts.get('inline_ops') or []) if src == 'mixed' else set()
    for i, lf in enumerate(spec['lfs']):
        names = dataset_names(spec, i)
        for j, op in enumerate(lf['ops']):
            if j in mixed_inline:
                continue        # this channel got its data at add_channel()
            if op['t'] == 'channel' and op.get('data') is not None and op.get('data_from') is None:
                arrays[names[j]] = model.make_array(op['data'])
    keys = list(arrays)
    perm = opts.get('perm')
    if opts.get('field_order'):
        keys = [k for k in opts['field_order'] if k in arrays] + [k for k in keys if k not in opts['field_order']]
    elif perm == 'rev':
        keys = keys[::-1]
    elif perm == 'rot' and keys:
        keys = keys[1:] + keys[:1]
    extra = opts.get('extra') or []
    if src in ('dict', 'mixed'):
        d = {k: arrays[k] for k in keys}
        if opts.get('drop_last') and len(d) > 1:
            d.pop(sorted(d)[-1])
        for e in extra:
            d.setdefault('XTRA_' + str(e), np.arange(3, dtype=np.float32))
        for k, v in d.items():
            b.supplied['dict:' + k] = v
        b.data_arg = d
        return d
    if src == 'struct':
        n = min(a.shape[0] for a in arrays.values())
        fields = []
        for k in keys:
            a = arrays[k]
            fields.append((k, a.dtype) if a.ndim == 1 else (k, a.dtype, a.shape[1:]))
        for e in extra:
            fields.append(('XTRA_' + str(e), np.dtype('<f4')))
        # 'aligned': a structured dtype with padding between the fields, as np.dtype(..., align=True) gives
        st = np.zeros(n, dtype=np.dtype(fields, align=bool(opts.get('aligned'))))
        for k in keys:
            st[k] = arrays[k][:n]
        b.supplied['struct'] = st
        b.data_arg = st
        return st
    if src == 'hdf5':
        import h5py
        path = os.path.join(scratch, f"src{os.getpid()}.h5")
        if os.path.exists(path):
            os.remove(path)
        with h5py.File(path, 'w') as f:
            for k in keys:
                f.create_dataset(k, data=arrays[k])
            for e in extra:
                f.create_dataset('XTRA_' + str(e), data=np.arange(3, dtype=np.float32))
        b.data_arg = path
        return path
    raise ValueError(src)


def write_kwargs(spec):
    w = spec.get('write') or {}
    vrl = (spec.get('sul') or {}).get('vrl', 8192)
    kw = {'output_chunk_size': w['ocs'] if w.get('ocs') is not None else max(vrl, 1 << 16)}
    if w.get('ics') is not None:
        kw['input_chunk_size'] = w['ics']
    if w.get('from'):
        kw['from_idx'] = w['from']
    if w.get('to') is not None:
        kw['to_idx'] = w['to']
    return kw


def run_prelude(kind, spec, scratch):
    """An earlier write of another small file in this process, with this specification's write options and record
    length: 'failed-rows' / 'failed-missing' raise after the metadata records have been produced, 'ok' succeeds."""
    from dliswriter import DLISFile
    vrl = (spec.get('sul') or {}).get('vrl', 8192)
    df = DLISFile(max_record_length=vrl) if vrl != 8192 else DLISFile()
    lf = df.add_logical_file()
    lf.add_origin('PRELUDE', file_set_number=7, creation_time=datetime(2001, 2, 3, 4, 5, 6, tzinfo=timezone.utc))
    n2 = {'failed-rows': 3, 'failed-missing': 5, 'ok': 5}[kind]
    a = lf.add_channel('PA', data=np.arange(5, dtype=np.float64))
    if kind == 'failed-missing':
        b2 = lf.add_channel('PB')       # no data anywhere: the write fails when the frame's data are looked up
    else:
        b2 = lf.add_channel('PB', data=np.arange(n2 * 2, dtype=np.int16).reshape(n2, 2))
    lf.add_frame('PF', channels=(a, b2))
    kw = {k: v for k, v in write_kwargs(spec).items() if k in ('output_chunk_size', 'input_chunk_size')}
    try:
        df.write(os.path.join(scratch, f'prelude{os.getpid()}.dlis'), **kw)
        return 'written'
    except Exception:
        return 'raised'


def build_and_write(spec, path, scratch, keep=False, after_prelude=None):
    """Returns dict(outcome='written'|'raised', stage='build'|'write', exc, buf, built)."""
    import contextlib
    pre = (spec.get('write') or {}).get('prelude')
    if pre:
        run_prelude(pre, spec, scratch)
        if after_prelude:
            after_prelude()
    ctxm = contextlib.nullcontext()
    if spec.get('hc'):
        from dliswriter import high_compatibility_mode
        ctxm = high_compatibility_mode()
    b = None
    with ctxm:
        try:
            b = build(spec, scratch)
        except BuildError as be:
            return {'outcome': 'raised', 'stage': 'build', 'exc': be.exc, 'where': (be.lf, be.op), 'buf': None,
                    'built': None}
        try:
            data = make_source(spec, b, scratch)
            kw = write_kwargs(spec)
            if data is not None:
                kw['data'] = data
            b.df.write(path, **kw)
        except Exception as exc:
            return {'outcome': 'raised', 'stage': 'write', 'exc': exc, 'where': None, 'buf': None,
                    'built': b if keep else None}
    with open(path, 'rb') as f:
        buf = f.read()
    return {'outcome': 'written', 'stage': 'done', 'exc': None, 'where': None, 'buf': buf,
            'built': b if keep else None}
