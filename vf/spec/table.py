"""Keyword -> RP66 label table for every add_* method of the public API (Appendix B of DESIGN.md).

Written from the RP66 V1 object definitions and the project's docs; a literal, never introspected from the code under
test, so a dropped / mis-forwarded keyword, a changed label or a changed fixed code shows up as a disagreement.

A(label, kind, py, multi=False, nested=False, targets=None, code=None, enum=None)
kinds:
  ident      IDENT text                      text       ASCII text
  num        number, code inferred (float)   int        integer only, code inferred
  uvari/unorm/ushort/fdoubl                  number with that fixed code
  dim        list of UVARI                   status     STATUS 0/1
  dtime      date-time only (DTIME)          dtnum      date-time or float
  ref        reference(s) to objects of `targets` (OBNAME unless code='OBJREF')
  reftext    reference to LONG-NAME object or ASCII text
  generic    str / int / float after convert_maybe_numeric
  soft:<E>   IDENT, enum E recommended (other strings accepted with a warning)
  hard:<E>   IDENT, only members of enum E
  encrypted  frame ENCRYPTED flag (USHORT 0/1)
  anyref     plain attribute written as OBJREF (channel SOURCE)
"""


class A:
    __slots__ = ('label', 'kind', 'py', 'multi', 'nested', 'targets', 'code', 'units_ok')

    def __init__(self, label, kind, py=None, multi=False, nested=False, targets=None, code=None):
        self.label = label
        self.kind = kind
        self.py = py
        self.multi = multi
        self.nested = nested
        self.targets = targets
        self.code = code
        # units can be set on plain / numeric / date-time attributes only
        self.units_ok = kind in ('num', 'int', 'uvari', 'unorm', 'ushort', 'fdoubl', 'dtime', 'dtnum', 'generic',
                                 'encrypted', 'anyref')


ANY = '*'

TYPES = {
    'axis': dict(method='add_axis', set_type='AXIS', lr_type=2, attrs={
        'axis_id': A('AXIS-ID', 'ident'),
        'coordinates': A('COORDINATES', 'generic', multi=True),
        'spacing': A('SPACING', 'num'),
    }),
    'calibration': dict(method='add_calibration', set_type='CALIBRATION', lr_type=5, attrs={
        'calibrated_channels': A('CALIBRATED-CHANNELS', 'ref', multi=True, targets=['channel']),
        'uncalibrated_channels': A('UNCALIBRATED-CHANNELS', 'ref', multi=True, targets=['channel']),
        'coefficients': A('COEFFICIENTS', 'ref', multi=True, targets=['calibration_coefficient']),
        'measurements': A('MEASUREMENTS', 'ref', multi=True, targets=['calibration_measurement']),
        'parameters': A('PARAMETERS', 'ref', multi=True, targets=['parameter']),
        'method': A('METHOD', 'ident'),
    }),
    'calibration_coefficient': dict(method='add_calibration_coefficient', set_type='CALIBRATION-COEFFICIENT',
                                    lr_type=5, attrs={
        'label': A('LABEL', 'ident'),
        'coefficients': A('COEFFICIENTS', 'num', multi=True),
        'references': A('REFERENCES', 'num', multi=True),
        'plus_tolerances': A('PLUS-TOLERANCES', 'num', multi=True),
        'minus_tolerances': A('MINUS-TOLERANCES', 'num', multi=True),
    }),
    'calibration_measurement': dict(method='add_calibration_measurement', set_type='CALIBRATION-MEASUREMENT',
                                    lr_type=5, attrs={
        'phase': A('PHASE', 'hard:CalibrationMeasurementPhase'),
        'measurement_source': A('MEASUREMENT-SOURCE', 'ref', targets=ANY, code='OBJREF'),
        'measurement_type': A('TYPE', 'ident', py='type'),
        'dimension': A('DIMENSION', 'dim', multi=True),
        'axis': A('AXIS', 'ref', multi=True, targets=['axis']),
        'measurement': A('MEASUREMENT', 'num', multi=True, nested=True),
        'sample_count': A('SAMPLE-COUNT', 'int'),
        'maximum_deviation': A('MAXIMUM-DEVIATION', 'num', multi=True, nested=True),
        'standard_deviation': A('STANDARD-DEVIATION', 'num', multi=True, nested=True),
        'begin_time': A('BEGIN-TIME', 'dtnum'),
        'duration': A('DURATION', 'num'),
        'reference': A('REFERENCE', 'num', multi=True, nested=True),
        'standard': A('STANDARD', 'num', multi=True, nested=True),
        'plus_tolerance': A('PLUS-TOLERANCE', 'num', multi=True, nested=True),
        'minus_tolerance': A('MINUS-TOLERANCE', 'num', multi=True, nested=True),
    }),
    'channel': dict(method='add_channel', set_type='CHANNEL', lr_type=3, attrs={
        'long_name': A('LONG-NAME', 'reftext', targets=['long_name']),
        'dimension': A('DIMENSION', 'dim', multi=True),
        'element_limit': A('ELEMENT-LIMIT', 'dim', multi=True),
        'properties': A('PROPERTIES', 'hard:Property', multi=True),
        'units': A('UNITS', 'soft:Unit'),
        'axis': A('AXIS', 'ref', multi=True, targets=['axis']),
        'minimum_value': A('MINIMUM-VALUE', 'fdoubl', multi=True),
        'maximum_value': A('MAXIMUM-VALUE', 'fdoubl', multi=True),
        'source': A('SOURCE', 'anyref', targets=ANY, code='OBJREF'),
    }),
    'comment': dict(method='add_comment', set_type='COMMENT', lr_type=6, attrs={
        'text': A('TEXT', 'text', multi=True),
    }),
    'computation': dict(method='add_computation', set_type='COMPUTATION', lr_type=5, attrs={
        'long_name': A('LONG-NAME', 'reftext', targets=['long_name']),
        'properties': A('PROPERTIES', 'hard:Property', multi=True),
        'dimension': A('DIMENSION', 'dim', multi=True),
        'axis': A('AXIS', 'ref', multi=True, targets=['axis']),
        'zones': A('ZONES', 'ref', multi=True, targets=['zone']),
        'values': A('VALUES', 'num', multi=True, nested=True),
        'source': A('SOURCE', 'ref', targets=ANY, code='OBJREF'),
    }),
    'equipment': dict(method='add_equipment', set_type='EQUIPMENT', lr_type=5, attrs={
        'trademark_name': A('TRADEMARK-NAME', 'text'),
        'status': A('STATUS', 'status'),
        'eq_type': A('TYPE', 'soft:EquipmentType', py='_type'),
        'serial_number': A('SERIAL-NUMBER', 'ident'),
        'location': A('LOCATION', 'soft:EquipmentLocation'),
        'height': A('HEIGHT', 'num'),
        'length': A('LENGTH', 'num'),
        'minimum_diameter': A('MINIMUM-DIAMETER', 'num'),
        'maximum_diameter': A('MAXIMUM-DIAMETER', 'num'),
        'volume': A('VOLUME', 'num'),
        'weight': A('WEIGHT', 'num'),
        'hole_size': A('HOLE-SIZE', 'num'),
        'pressure': A('PRESSURE', 'num'),
        'temperature': A('TEMPERATURE', 'num'),
        'vertical_depth': A('VERTICAL-DEPTH', 'num'),
        'radial_drift': A('RADIAL-DRIFT', 'num'),
        'angular_drift': A('ANGULAR-DRIFT', 'num'),
    }),
    'frame': dict(method='add_frame', set_type='FRAME', lr_type=4, attrs={
        'channels': A('CHANNELS', 'ref', multi=True, targets=['channel']),
        'description': A('DESCRIPTION', 'text'),
        'index_type': A('INDEX-TYPE', 'soft:FrameIndexType'),
        'direction': A('DIRECTION', 'ident'),
        'spacing': A('SPACING', 'num'),
        'encrypted': A('ENCRYPTED', 'encrypted'),
        'index_min': A('INDEX-MIN', 'num'),
        'index_max': A('INDEX-MAX', 'num'),
    }),
    'group': dict(method='add_group', set_type='GROUP', lr_type=5, attrs={
        'description': A('DESCRIPTION', 'text'),
        'object_list': A('OBJECT-LIST', 'ref', multi=True, targets=ANY, code='OBJREF'),
        'group_list': A('GROUP-LIST', 'ref', multi=True, targets=['group']),
    }),
    'long_name': dict(method='add_long_name', set_type='LONG-NAME', lr_type=9, attrs={
        'general_modifier': A('GENERAL-MODIFIER', 'text', multi=True),
        'quantity': A('QUANTITY', 'text'),
        'quantity_modifier': A('QUANTITY-MODIFIER', 'text', multi=True),
        'altered_form': A('ALTERED-FORM', 'text'),
        'entity': A('ENTITY', 'text'),
        'entity_modifier': A('ENTITY-MODIFIER', 'text', multi=True),
        'entity_number': A('ENTITY-NUMBER', 'text'),
        'entity_part': A('ENTITY-PART', 'text'),
        'entity_part_number': A('ENTITY-PART-NUMBER', 'text'),
        'generic_source': A('GENERIC-SOURCE', 'text'),
        'source_part': A('SOURCE-PART', 'text', multi=True),
        'source_part_number': A('SOURCE-PART-NUMBER', 'text', multi=True),
        'conditions': A('CONDITIONS', 'text', multi=True),
        'standard_symbol': A('STANDARD-SYMBOL', 'text'),
        'private_symbol': A('PRIVATE-SYMBOL', 'text'),
    }),
    'message': dict(method='add_message', set_type='MESSAGE', lr_type=6, attrs={
        'message_type': A('TYPE', 'ident', py='_type'),
        'time': A('TIME', 'dtnum'),
        'borehole_drift': A('BOREHOLE-DRIFT', 'num'),
        'vertical_depth': A('VERTICAL-DEPTH', 'num'),
        'radial_drift': A('RADIAL-DRIFT', 'num'),
        'angular_drift': A('ANGULAR-DRIFT', 'num'),
        'text': A('TEXT', 'text', multi=True),
    }),
    'no_format': dict(method='add_no_format', set_type='NO-FORMAT', lr_type=8, attrs={
        'consumer_name': A('CONSUMER-NAME', 'ident'),
        'description': A('DESCRIPTION', 'text'),
    }),
    'origin': dict(method='add_origin', set_type='ORIGIN', lr_type=1, attrs={
        'file_set_number': A('FILE-SET-NUMBER', 'uvari'),
        'file_set_name': A('FILE-SET-NAME', 'ident'),
        'file_number': A('FILE-NUMBER', 'uvari'),
        'file_type': A('FILE-TYPE', 'ident'),
        'product': A('PRODUCT', 'text'),
        'version': A('VERSION', 'text'),
        'programs': A('PROGRAMS', 'text', multi=True),
        'creation_time': A('CREATION-TIME', 'dtime'),
        'order_number': A('ORDER-NUMBER', 'text'),
        'descent_number': A('DESCENT-NUMBER', 'unorm'),
        'run_number': A('RUN-NUMBER', 'unorm'),
        'well_id': A('WELL-ID', 'text'),
        'well_name': A('WELL-NAME', 'text'),
        'field_name': A('FIELD-NAME', 'text'),
        'producer_code': A('PRODUCER-CODE', 'unorm'),
        'producer_name': A('PRODUCER-NAME', 'text'),
        'company': A('COMPANY', 'text'),
        'name_space_name': A('NAME-SPACE-NAME', 'ident'),
        'name_space_version': A('NAME-SPACE-VERSION', 'uvari'),
    }),
    'parameter': dict(method='add_parameter', set_type='PARAMETER', lr_type=5, attrs={
        'long_name': A('LONG-NAME', 'reftext', targets=['long_name']),
        'dimension': A('DIMENSION', 'dim', multi=True),
        'axis': A('AXIS', 'ref', multi=True, targets=['axis']),
        'zones': A('ZONES', 'ref', multi=True, targets=['zone']),
        'values': A('VALUES', 'generic', multi=True, nested=True),
    }),
    'path': dict(method='add_path', set_type='PATH', lr_type=4, attrs={
        'frame_type': A('FRAME-TYPE', 'ref', targets=['frame']),
        'well_reference_point': A('WELL-REFERENCE-POINT', 'ref', targets=['well_reference_point']),
        'value': A('VALUE', 'ref', multi=True, targets=['channel']),
        'borehole_depth': A('BOREHOLE-DEPTH', 'num'),
        'vertical_depth': A('VERTICAL-DEPTH', 'num'),
        'radial_drift': A('RADIAL-DRIFT', 'num'),
        'angular_drift': A('ANGULAR-DRIFT', 'num'),
        'time': A('TIME', 'num'),
        'depth_offset': A('DEPTH-OFFSET', 'num'),
        'measure_point_offset': A('MEASURE-POINT-OFFSET', 'num'),
        'tool_zero_offset': A('TOOL-ZERO-OFFSET', 'num'),
    }),
    'process': dict(method='add_process', set_type='PROCESS', lr_type=5, attrs={
        'description': A('DESCRIPTION', 'text'),
        'trademark_name': A('TRADEMARK-NAME', 'text'),
        'version': A('VERSION', 'text'),
        'properties': A('PROPERTIES', 'hard:Property', multi=True),
        'status': A('STATUS', 'hard:ProcessStatus'),
        'input_channels': A('INPUT-CHANNELS', 'ref', multi=True, targets=['channel']),
        'output_channels': A('OUTPUT-CHANNELS', 'ref', multi=True, targets=['channel']),
        'input_computations': A('INPUT-COMPUTATIONS', 'ref', multi=True, targets=['computation']),
        'output_computations': A('OUTPUT-COMPUTATIONS', 'ref', multi=True, targets=['computation']),
        'parameters': A('PARAMETERS', 'ref', multi=True, targets=['parameter']),
        'comments': A('COMMENTS', 'text', multi=True),
    }),
    'splice': dict(method='add_splice', set_type='SPLICE', lr_type=5, attrs={
        'output_channel': A('OUTPUT-CHANNEL', 'ref', targets=['channel']),
        'input_channels': A('INPUT-CHANNELS', 'ref', multi=True, targets=['channel']),
        'zones': A('ZONES', 'ref', multi=True, targets=['zone']),
    }),
    'tool': dict(method='add_tool', set_type='TOOL', lr_type=5, attrs={
        'description': A('DESCRIPTION', 'text'),
        'trademark_name': A('TRADEMARK-NAME', 'text'),
        'generic_name': A('GENERIC-NAME', 'text'),
        'parts': A('PARTS', 'ref', multi=True, targets=['equipment']),
        'status': A('STATUS', 'status'),
        'channels': A('CHANNELS', 'ref', multi=True, targets=['channel']),
        'parameters': A('PARAMETERS', 'ref', multi=True, targets=['parameter']),
    }),
    'well_reference_point': dict(method='add_well_reference_point', set_type='WELL-REFERENCE', lr_type=1, attrs={
        'permanent_datum': A('PERMANENT-DATUM', 'text'),
        'vertical_zero': A('VERTICAL-ZERO', 'text'),
        'permanent_datum_elevation': A('PERMANENT-DATUM-ELEVATION', 'fdoubl'),
        'above_permanent_datum': A('ABOVE-PERMANENT-DATUM', 'fdoubl'),
        'magnetic_declination': A('MAGNETIC-DECLINATION', 'fdoubl'),
        'coordinate_1_name': A('COORDINATE-1-NAME', 'text'),
        'coordinate_1_value': A('COORDINATE-1-VALUE', 'fdoubl'),
        'coordinate_2_name': A('COORDINATE-2-NAME', 'text'),
        'coordinate_2_value': A('COORDINATE-2-VALUE', 'fdoubl'),
        'coordinate_3_name': A('COORDINATE-3-NAME', 'text'),
        'coordinate_3_value': A('COORDINATE-3-VALUE', 'fdoubl'),
    }),
    'zone': dict(method='add_zone', set_type='ZONE', lr_type=5, attrs={
        'description': A('DESCRIPTION', 'text'),
        'domain': A('DOMAIN', 'hard:ZoneDomain'),
        'maximum': A('MAXIMUM', 'dtnum'),
        'minimum': A('MINIMUM', 'dtnum'),
    }),
}

for _t, _d in TYPES.items():
    for _k, _a in _d['attrs'].items():
        if _a.py is None:
            _a.py = _k

SET_TYPE_TO_KIND = {d['set_type']: k for k, d in TYPES.items()}

# Labels present in each set's template that the user cannot assign through add_* (derived / internal)
EXTRA_LABELS = {
    'channel': ['REPRESENTATION-CODE'],
    'origin': ['FILE-ID'],
    'group': ['OBJECT-TYPE'],
}

# Standard enumerations, copied from RP66 V1 (not imported from the code under test)
ENUMS = {
    'ZoneDomain': ['BOREHOLE-DEPTH', 'TIME', 'VERTICAL-DEPTH'],
    'ProcessStatus': ['COMPLETE', 'ABORTED', 'IN-PROGRESS'],
    'CalibrationMeasurementPhase': ['AFTER', 'BEFORE', 'MASTER'],
    'Property': ['AVERAGED', 'CALIBRATED', 'CHANGED-INDEX', 'COMPUTED', 'DEPTH-MATCHED', 'DERIVED', 'FILTERED',
                 'HOLE-SIZE-CORRECTED', 'LITHOLOGY-CORRECTED', 'LOCAL-COMPUTATION',
                 'LOCALLY-DEFINED', 'MODELLED', 'MUDCAKE-CORRECTED', 'NORMALIZED', 'OVER-SAMPLED',
                 'PRESSURE-CORRECTED', 'RE-SAMPLED', 'SALINITY-CORRECTED',
                 'SAMPLED-DOWNWARD', 'SAMPLED-UPWARD', 'SPEED-CORRECTED', 'SPLICED', 'SQUARED', 'STACKED',
                 'STANDARD-DEVIATION', 'STANDOFF-CORRECTED', 'TEMPERATURE-CORRECTED', 'UNDER-SAMPLED'],
    # TIME is a standard index type too, but the generator stays in the set every implementation accepts
    'FrameIndexType': ['ANGULAR-DRIFT', 'BOREHOLE-DEPTH', 'NON-STANDARD', 'RADIAL-DRIFT', 'VERTICAL-DEPTH'],
    'EquipmentType': ['Adapter', 'Board', 'Bottom-Nose', 'Bridle', 'Cable', 'Calibrator', 'Cartridge', 'Centralizer', 'Chamber', 'Cushion', 'Depth-Device', 'Display', 'Drawer', 'Excentralizer', 'Explosive-Source', 'Flask', 'Geophone', 'Gun', 'Head', 'Housing', 'Jig', 'Joint', 'Nuclear-Detector', 'Packer', 'Pad', 'Positioning', 'Printer', 'Radioactive-Source', 'Shield', 'Simulator', 'Skid', 'Sonde', 'Spacer', 'Standoff', 'System', 'Tool', 'Tool-Module', 'Transducer', 'Vibration-Source'],
    'EquipmentLocation': ['Logging-System', 'Remote', 'Rig', 'Well'],
    'Unit': ['A', 'K', 'cd', 'dAPI', 'dB', 'gAPI', 'kg', 'm', 'mol', 'nAPI', 'rad', 's', 'sr', 'Btu', 'C', 'D', 'GPa', 'Gal', 'Hz', 'J', 'L', 'MHz', 'MPa', 'MeV', 'Mg', 'Mpsi', 'N', 'Oe', 'P', 'Pa', 'S', 'T', 'V', 'W', 'Wb', 'a', 'acre', 'atm', 'b', 'bar', 'bbl', 'c', 'cP', 'cal', 'cm', 'cu', 'd', 'daN', 'deg', 'degC', 'degF', 'dm', 'eV', 'fC', 'ft', 'g', 'gal', 'h', 'in', 'kHz', 'kPa', 'kV', 'keV', 'kgf', 'km', 'lbf', 'lbm', 'mA', 'mC', 'mD', 'mGal', 'mL', 'mS', 'mT', 'mV', 'mW', 'mg', 'min', 'mm', 'mohm', 'ms', 'nC', 'nW', 'ns', 'ohm', 'pC', 'pPa', 'ppdk', 'ppk', 'ppm', 'psi', 'pu', 't', 'ton', 'uA', 'uC', 'uPa', 'uV', 'um', 'uohm', 'upsi', 'us'],
}
