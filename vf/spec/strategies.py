"""Hypothesis strategies producing valid file specifications (see build.py for the JSON shape).

Sound first: only inputs the docs / docstrings / callers accept; inter-attribute rules that the writer enforces at
write time are honoured by construction (ZONE time/number consistency, PARAMETER/COMPUTATION values vs zones, SPLICE
channels vs zones, equal counts in calibration objects, axis coordinates vs dimension).
"""
from datetime import datetime, timedelta, timezone

from hypothesis import strategies as st

from vf.spec import model
from vf.spec.table import TYPES, ENUMS, ANY

UPPER = 'ABCDEFGHIJKLMNOPQRSTUVWXYZ0123456789_-'
PRINTABLE = ''.join(chr(c) for c in range(32, 127))

DTYPES = ['i1', 'i2', 'i4', 'u1', 'u2', 'u4', 'f4', 'f8']
DTYPE_NAME = {'i1': 'int8', 'i2': 'int16', 'i4': 'int32', 'u1': 'uint8', 'u2': 'uint16', 'u4': 'uint32',
              'f4': 'float32', 'f8': 'float64'}

SPECIAL_F8 = ['0000000000000000', '0000000000000080', '000000000000f07f', '000000000000f0ff', '000000000000f87f',
              '010000000000f07f', '0100000000000000', 'ffffffffffffef7f', '000000000000f8ff', '182d4454fb210940']
SPECIAL_F4 = ['00000000', '00000080', '0000807f', '000080ff', '0000c07f', '0100807f', '01000000', 'ffff7f7f']


class Profile:
    """Knobs of the specification generator; each property module builds the profile it needs."""

    def __init__(self, **kw):
        self.vrl = 'mixed'              # 'mixed' | 'small' | 'default' | explicit list
        self.max_frames = 2
        self.max_channels = 4
        self.max_rows = 24
        self.max_width = 12
        self.byte_orders = ('<', '>')
        self.layouts = ('C',)
        self.specials = False
        self.casts = False
        self.nonmonotonic_index = False # index channels that go up and down (C19: nothing may be sorted in place)
        self.must_kind = None           # a metadata kind of which every logical file holds at least one object
        self.fractional_index = False   # float64 index values that float32 cannot represent (differential oracles only)
        self.any_casts = False          # casts whose result is not defined for every value (C19 only: no content oracle)
        self.meta_kinds = ()            # object kinds (besides origin/channel/frame) that may appear
        self.max_meta = 6
        self.attr_routes = ('kw',)
        self.units = True
        self.unit_enums = True
        self.long_text = 0              # max length of long ASCII values (0 = short only)
        self.counts_over_127 = False
        self.empty_lists = False
        self.name_pool = None           # list of names to draw object names from (repeats -> copy numbers)
        self.name_max = 24
        self.named_sets = False
        self.set_names_per_type_differ = False   # allow same-named objects in differently named sets (C07 finding)
        self.max_origins = 1
        self.origin_position = ('first',)
        self.explicit_origin_refs = False
        self.shuffle = False
        self.noformat = 0               # max number of NO-FORMAT objects
        self.nf_payload_max = 64
        self.max_lfs = 1
        self.interleave = False         # interleave add_* calls of several logical files
        self.sources = ('inline',)
        self.windows = False
        self.chunks = False
        self.index_types = True
        self.uniform_index = False      # index channel always uniformly spaced (needed inside HC mode)
        self.min_row_bytes = 0
        self.sul_variants = False
        self.hdr_variants = False
        self.pin_origin = True          # always give file_set_number and creation_time
        self.upper_names = False        # names restricted to [A-Z0-9_-]+
        self.reuse_ref_lists = False    # the caller passes one re-used list object for all lists of references
        self.shared_datasets = False    # a frame may get an extra channel re-using an earlier channel's dataset
        self.dtypes = None              # restrict channel dtypes (list of codes like 'f8'); None = all eight
        self.number_pool = None         # draw every number from this small pool (C14: equal-but-distinct values)
        self.text_pool = None
        self.full_attrs = False         # channel dimension/element_limit/axis and all frame attributes too
        self.origin_sets_differ = False  # origins of one logical file may sit in differently named ORIGIN sets
        self.preludes = False           # an earlier write of another small file in the same process (failed or successful)
        self.lf_distinct_sets = True    # with several logical files, every logical file uses its own set names
        for k, v in kw.items():
            if not hasattr(self, k):
                raise AttributeError(k)
            setattr(self, k, v)


# ------------------------------------------------------------------ small pieces

def draw_vrl(draw, profile):
    if isinstance(profile.vrl, (list, tuple)):
        return draw(st.sampled_from(list(profile.vrl)))
    if profile.vrl == 'default':
        return 8192
    if profile.vrl == 'small':
        return draw(st.integers(10, 128)) * 2
    return draw(st.one_of(st.integers(10, 64), st.integers(10, 200), st.integers(10, 8192),
                          st.sampled_from([4096, 8192]))) * 2


def draw_name(draw, profile, used=None):
    if profile.name_pool:
        return draw(st.sampled_from(profile.name_pool))
    alphabet = UPPER if profile.upper_names else PRINTABLE
    n = draw(st.text(alphabet=alphabet, min_size=1, max_size=profile.name_max))
    return n


LONG_POOL = [''.join(chr(65 + (i * 7) % 26) for i in range(n)) for n in (128, 130, 200, 255)]


def draw_text(draw, profile, max_len=None):
    if profile.text_pool:
        return draw(st.sampled_from(profile.text_pool))
    if profile.long_text and draw(st.integers(0, 24)) == 0:
        # the same 128..255-character strings are also drawn for IDENT-coded values (draw_ident): equal text under two codes
        return draw(st.sampled_from(LONG_POOL))
    if profile.long_text and draw(st.integers(0, 9)) == 0:
        n = draw(st.integers(100, profile.long_text))
        a, b = draw(st.integers(1, 90)), draw(st.integers(0, 90))
        return ''.join(chr(32 + (i * a + b) % 95) for i in range(n))
    return draw(st.text(alphabet=PRINTABLE, max_size=max_len or 24))


def draw_ident(draw, profile):
    if profile.text_pool:
        return draw(st.sampled_from(profile.text_pool))
    if profile.long_text and draw(st.integers(0, 24)) == 0:
        return draw(st.sampled_from(LONG_POOL))
    if profile.upper_names:
        return draw(st.text(alphabet=UPPER, min_size=1, max_size=16))
    return draw(st.text(alphabet=PRINTABLE, min_size=0, max_size=20))


FLOATS = st.one_of(st.floats(allow_nan=False, allow_infinity=False, width=64),
                   st.floats(-1e6, 1e6), st.sampled_from([0.0, -0.0, 1.0, 0.5, -1.5, 1e300, 5e-324, 2.0 ** 53 + 2]),
                   st.integers(-2 ** 31, 2 ** 31 - 1).map(float))
NUMBERS = st.one_of(FLOATS, st.integers(-10 ** 6, 10 ** 6), st.integers(-2 ** 31, 2 ** 31 - 1))


def nums(p):
    return st.sampled_from(p.number_pool) if p.number_pool else NUMBERS


def floats(p):
    return st.sampled_from(p.number_pool) if p.number_pool else FLOATS


# local times in named zones: inside the repeated hour at the end of daylight saving time (fold matters), inside
# summer time, inside winter time
ZONE_TIMES = [('Europe/Berlin', '2023-10-29T02:30:00'), ('America/New_York', '2021-11-07T01:15:00'),
              ('Australia/Sydney', '2022-04-03T02:45:00'), ('Europe/Berlin', '2023-07-01T12:00:00'),
              ('America/New_York', '2021-01-15T08:00:00.250000')]


def draw_datetime(draw):
    if draw(st.integers(0, 7)) == 0 and model.zones_available():
        z, iso = draw(st.sampled_from(ZONE_TIMES))
        return {'$dt': iso, 'zone': z, 'fold': draw(st.integers(0, 1))}
    base = datetime(1900, 1, 2) + timedelta(seconds=draw(st.integers(0, 8046 * 10 ** 6)),
                                            microseconds=draw(st.sampled_from([0, 0, 1, 499, 500, 999499, 999500,
                                                                               999999, 123456])))
    if draw(st.booleans()):
        tz = draw(st.sampled_from([0, 60, -300, 330, 840, -720, 345]))
        return {'$dt': base.isoformat(), 'tz': tz}
    return {'$dt': base.isoformat(), 'tz': None}


def draw_units(draw, profile):
    if not profile.units or draw(st.integers(0, 2)) != 0:
        return None
    if not profile.upper_names and draw(st.integers(0, 11)) == 0:
        return ''          # an empty unit string: accepted (with a warning), means "no units"
    if profile.unit_enums and draw(st.booleans()):
        # member names of dliswriter.enums.Unit as documented
        return {'$enum': ['Unit', draw(st.sampled_from(['METER', 'SECOND', 'FOOT', 'INCH', 'KELVIN', 'DEGREE_CELSIUS',
                                                        'POUND_PER_SQUARE_INCH', 'API_GAMMA_RAY']))]}
    return draw(st.sampled_from(ENUMS['Unit'][:40]))


def draw_count(draw, profile, lo=1, hi=4):
    if profile.counts_over_127 and draw(st.integers(0, 14)) == 0:
        return draw(st.sampled_from([127, 128, 129, 200, 300]))
    return draw(st.integers(lo, hi))


class GenCtx:
    """Book-keeping while one logical file's ops are drawn."""

    def __init__(self, profile):
        self.profile = profile
        self.ops = []
        self.by_kind = {}
        self.names = {}       # (kind, set) -> [names]
        self.set_choice = {}

    def set_for(self, draw, kind):
        """Set name for a new object of `kind`. Unless the profile allows differently named sets of one type
        (the C07 finding), every object of a kind in this logical file goes to the same set."""
        p = self.profile
        if not p.named_sets:
            return None
        # (set names in upper, lower and mixed case, with a blank: all are plain IDENT text; 'main' and 'Main' differ)
        if p.set_names_per_type_differ:
            return draw(st.sampled_from([None, 'S1', 'S2'] if p.upper_names else [None, 'S1', 'S2', 's1', 'Main set', '']))
        if kind == 'origin' and p.origin_sets_differ:
            return draw(st.sampled_from([None, 'ORIG-A', 'ORIG-B'] if p.upper_names else [None, 'ORIG-A', 'ORIG-B', 'orig-a']))
        if kind not in self.set_choice:
            self.set_choice[kind] = draw(st.sampled_from(
                [None, None, 'SET-' + kind.upper()[:6]] if p.upper_names else
                [None, None, 'SET-' + kind.upper()[:6], 'set-' + kind[:6], 'Set of ' + kind[:4], '']))
        return self.set_choice[kind]

    def add(self, op):
        self.ops.append(op)
        self.by_kind.setdefault(op['t'], []).append(len(self.ops) - 1)
        return len(self.ops) - 1

    def candidates(self, targets):
        if targets == ANY:
            return [i for i, o in enumerate(self.ops) if o['t'] not in ('nfdata', 'origin')]
        out = []
        for t in targets:
            out.extend(self.by_kind.get(t, []))
        return sorted(out)


def draw_route(draw, profile, has_units):
    routes = [r for r in profile.attr_routes if not (has_units and r == 'kw')] or ['dict']
    return draw(st.sampled_from(routes))


def draw_attr_value(draw, a, g, op=None):
    """Valid JSON value for attribute spec `a` (table.A). Returns (value, ok) - ok False if nothing can be drawn."""
    p = g.profile
    k = a.kind

    def many(elem, lo=1, hi=4):
        if not a.multi:
            return elem()
        if p.empty_lists and draw(st.integers(0, 11)) == 0:
            return []
        n = draw_count(draw, p, lo, hi)
        return [elem() for _ in range(n)]

    if k == 'ident':
        return many(lambda: draw_ident(draw, p)), True
    if k == 'text':
        return many(lambda: draw_text(draw, p)), True
    if k in ('num', 'fdoubl'):
        if a.nested and draw(st.booleans()):
            rows, cols = draw(st.integers(1, 3)), draw(st.integers(1, 3))
            if draw(st.integers(0, 2)) == 0:
                deep = draw(st.integers(1, 2))
                return [[[draw(nums(p)) for _ in range(cols)] for _ in range(deep)] for _ in range(rows)], True
            return [[draw(nums(p)) for _ in range(cols)] for _ in range(rows)], True
        return many(lambda: draw(nums(p))), True
    if k == 'int':
        return many(lambda: draw(st.integers(-2 ** 31, 2 ** 31 - 1))), True
    if k == 'uvari':
        return many(lambda: draw(st.one_of(st.integers(0, 300), st.sampled_from([127, 128, 16383, 16384, 2 ** 30 - 1]),
                                           st.integers(0, 2 ** 30 - 1)))), True
    if k == 'unorm':
        return many(lambda: draw(st.one_of(st.integers(0, 65535), st.sampled_from([0, 255, 256, 65535])))), True
    if k == 'ushort':
        return many(lambda: draw(st.integers(0, 255))), True
    if k == 'dim':
        n = draw(st.integers(1, 3))
        return [draw(st.integers(1, 6)) for _ in range(n)], True
    if k == 'status':
        return draw(st.sampled_from([0, 1, True, False, 1.0, 0.0])), True
    if k == 'dtime':
        if draw(st.integers(0, 4)) == 0:
            d = datetime(1970, 1, 1) + timedelta(seconds=draw(st.integers(0, 2 * 10 ** 9)))
            fmt = draw(st.sampled_from(["%Y/%m/%d %H:%M:%S", "%Y.%m.%d %H:%M:%S"]))
            return d.strftime(fmt), True
        return draw_datetime(draw), True
    if k == 'dtnum':
        mode = draw(st.integers(0, 7))
        if mode == 0:
            # date-time given as text in one of the two documented formats
            d = datetime(1970, 1, 1) + timedelta(seconds=draw(st.integers(0, 2 * 10 ** 9)))
            return d.strftime(draw(st.sampled_from(["%Y/%m/%d %H:%M:%S", "%Y.%m.%d %H:%M:%S"]))), True
        if mode == 1 and not p.number_pool:
            # a number given as text ("float time format"): written as that number
            return draw(st.sampled_from(['12.5', '0', '-3', '1e3', '86400.25', '  7 ', '1_0'])), True
        if mode < 5:
            return draw_datetime(draw), True
        return draw(nums(p)), True
    if k == 'generic':
        mode = draw(st.integers(0, 4 if not p.number_pool else 3))
        if mode == 4:
            # text that denotes a number (written as the text or as the number - both are faithful)
            elem = lambda: draw(st.sampled_from(['12', '-7', '1.5', '007', '3.0', '-0.25', '2147483647', '1.e1', '.5']))
        elif mode == 3 and not p.number_pool:
            # integers and floats in one list (one representation code has to hold them all)
            elem = lambda: draw(st.one_of(st.integers(-2 ** 31, 2 ** 31 - 1), floats(p)))
        elif mode == 0:
            elem = lambda: '#' + draw_text(draw, p)      # never parses as a number
        elif mode == 1:
            elem = lambda: draw(st.integers(-2 ** 31, 2 ** 31 - 1))
        else:
            elem = lambda: draw(floats(p))
        if a.nested and draw(st.integers(0, 3)) == 0:
            rows, cols = draw(st.integers(1, 3)), draw(st.integers(1, 3))
            return [[elem() for _ in range(cols)] for _ in range(rows)], True
        return many(elem), True
    if k.startswith('soft:') or k.startswith('hard:'):
        en = k.split(':')[1]
        vals = ENUMS[en]
        if k.startswith('soft:') and not p.upper_names and draw(st.integers(0, 3)) == 0:
            return many(lambda: draw_ident(draw, p) or 'x'), True
        if p.unit_enums and en != 'Unit' and draw(st.integers(0, 2)) == 0:
            # members of the library's enum classes instead of their plain strings
            from vf.spec.expect import ENUM_MEMBERS
            members = sorted(ENUM_MEMBERS.get(en, {}))
            if members:
                return many(lambda: {'$enum': [en, draw(st.sampled_from(members))]}), True
        return many(lambda: draw(st.sampled_from(vals))), True
    if k == 'encrypted':
        return draw(st.sampled_from([0, 1, True, False])), True
    if k in ('ref', 'anyref', 'reftext'):
        if k == 'reftext' and draw(st.booleans()):
            return draw_text(draw, p) or 'L', True      # an empty long name means "not given"
        cands = g.candidates(a.targets)
        if not cands:
            if k == 'reftext':
                return draw_text(draw, p) or 'L', True
            return None, False
        if a.multi:
            n = draw(st.integers(1, min(4, max(1, len(cands)))))
            return [{'$ref': draw(st.sampled_from(cands))} for _ in range(n)], True
        return {'$ref': draw(st.sampled_from(cands))}, True
    raise ValueError(k)


def draw_attrs(draw, kind, g, only=None, exclude=()):
    """Random subset of the attributes of `kind` with valid values."""
    p = g.profile
    out = {}
    attrs = TYPES[kind]['attrs']
    keys = [k for k in attrs if k not in exclude and (only is None or k in only)]
    if not keys:
        return out
    mode = draw(st.integers(0, 3))
    for k in keys:
        if mode == 0 and draw(st.integers(0, 3)) != 0:
            continue
        if mode in (1, 2) and draw(st.booleans()):
            continue
        a = attrs[k]
        v, ok = draw_attr_value(draw, a, g)
        if not ok:
            continue
        u = draw_units(draw, p) if a.units_ok else None
        out[k] = {'v': v, 'u': u, 'r': draw_route(draw, p, u is not None)}
    return out


# ------------------------------------------------------------------ arrays and frames

def draw_array(draw, profile, rows, dt=None, width=None, index_like=False):
    code = dt or draw(st.sampled_from(list(profile.dtypes or DTYPES)))
    bo = '|' if code.endswith('1') else draw(st.sampled_from(list(profile.byte_orders)))
    dts = bo + code
    if width is None:
        width = 0 if draw(st.integers(0, 2)) else draw(st.integers(1, profile.max_width))
    shape = [rows] if width == 0 else [rows, width]
    aj = {'dt': dts, 'shape': shape}
    nb = model.array_nbytes(aj)
    if nb <= 96:
        aj['hex'] = draw(st.binary(min_size=nb, max_size=nb)).hex()
    else:
        aj['pat'] = [draw(st.integers(0, 127)) * 2 + 1, draw(st.integers(0, 255))]
    if profile.specials and code in ('f4', 'f8') and draw(st.booleans()):
        tab = SPECIAL_F8 if code == 'f8' else SPECIAL_F4
        sp = []
        for _ in range(draw(st.integers(1, 3))):
            hx = draw(st.sampled_from(tab))
            if bo == '>':
                hx = bytes.fromhex(hx)[::-1].hex()
            sp.append([draw(st.integers(0, 400)), hx])
        aj['special'] = sp
    elif profile.specials and draw(st.integers(0, 3)) == 0:
        size = int(code[1])
        ext = draw(st.sampled_from(['00' * size, 'ff' * size, '80' + '00' * (size - 1), '7f' + 'ff' * (size - 1),
                                    '00' * (size - 1) + '80', 'ff' * (size - 1) + '7f']))
        aj['special'] = [[draw(st.integers(0, 400)), ext]]
    if len(profile.layouts) > 1:
        aj['layout'] = draw(st.sampled_from(list(profile.layouts)))
    return aj


def draw_index_array(draw, profile, rows):
    """1-D index channel: finite, mostly monotone values (index semantics belong to C13)."""
    import numpy as np
    code = draw(st.sampled_from([c for c in ['f8', 'f4', 'i4', 'u2', 'i2', 'u4', 'f8']
                                 if not profile.dtypes or c in profile.dtypes]))
    bo = draw(st.sampled_from(list(profile.byte_orders)))
    start = draw(st.integers(0, 100))
    step = draw(st.integers(1, 5))
    if profile.uniform_index or draw(st.integers(0, 2)):
        vals = [start + i * step for i in range(rows)]
    else:
        vals = [start]
        for _ in range(rows - 1):
            vals.append(vals[-1] + draw(st.integers(1, 9)))
    if profile.nonmonotonic_index and rows >= 3 and draw(st.integers(0, 2)) == 0:
        vals = list(draw(st.permutations(vals)))
    if profile.fractional_index and code == 'f8' and draw(st.booleans()):
        vals = [v * 0.1 + 1e-9 * (i % 7) for i, v in enumerate(vals)]
    arr = np.array(vals).astype(bo + code)
    aj = {'dt': bo + code, 'shape': [rows], 'hex': arr.tobytes().hex()}
    if len(profile.layouts) > 1:
        aj['layout'] = draw(st.sampled_from(list(profile.layouts)))
    return aj


def well_defined_cast(draw, src_code, aj):
    """A cast dtype under which every value of the array converts with defined behaviour (else None)."""
    import numpy as np
    arr = model.logical_array(aj)
    cands = []
    for c in DTYPES:
        if c == src_code:
            continue
        tgt = np.dtype(c)
        if np.issubdtype(arr.dtype, np.floating):
            if not np.all(np.isfinite(arr)):
                if tgt.kind != 'f':
                    continue
            if tgt.kind in 'iu':
                info = np.iinfo(tgt)
                a64 = arr.astype(np.float64)
                if not (np.all(a64 == np.floor(a64)) and np.all(a64 >= info.min) and np.all(a64 <= info.max)):
                    continue
            cands.append(c)
        else:
            # integer -> integer outside the target's range wraps (numpy keeps the low-order bits: deterministic, and
            # it is the cast the channel declares), so such casts are in the domain too
            cands.append(c)
    if not cands:
        return None
    return draw(st.sampled_from(cands))


def draw_frame(draw, g, fidx, rows=None):
    """Append channel ops and one frame op to g. Returns the frame op index."""
    p = g.profile
    rows = rows or draw(st.integers(1, p.max_rows))
    nch = draw(st.integers(1, p.max_channels))
    indexed = p.index_types and draw(st.booleans())
    ch_idx = []
    row_bytes = 0
    used_names = set()
    for c in range(nch):
        if c == 0 and indexed:
            aj = draw_index_array(draw, p, rows)
        else:
            aj = draw_array(draw, p, rows)
        if c == nch - 1 and p.min_row_bytes:
            import numpy as np
            have = row_bytes + model.array_nbytes(aj) // rows
            if have < p.min_row_bytes:
                aj = draw_array(draw, p, rows, dt='f8', width=max(1, (p.min_row_bytes - row_bytes + 7) // 8))
        row_bytes += model.array_nbytes(aj) // rows
        name = draw_name(draw, p)
        k = 0
        while name in used_names:       # same-named channels inside one frame are not supported by the writer
            k += 1
            name = (name + str(k))[-p.name_max:] if not p.name_pool else name + str(k)
        used_names.add(name)
        op = {'t': 'channel', 'name': name, 'data': aj, 'attrs': {}}
        if p.any_casts and draw(st.integers(0, 5)) == 0:
            op['cast'] = DTYPE_NAME[draw(st.sampled_from([c for c in DTYPES if c != aj['dt'][1:]]))]
        elif p.casts and draw(st.integers(0, 3)) == 0:
            cast = well_defined_cast(draw, aj['dt'][1:], aj)
            if cast:
                # a type (np.float32) or a dtype object with an explicit byte order (np.dtype('>f4'))
                op['cast'] = draw(st.sampled_from(['', '', '>', '<'])) + DTYPE_NAME[cast]
        op['attrs'] = draw_attrs(draw, 'channel', g, exclude=('dimension', 'element_limit', 'axis', 'source',
                                                             'minimum_value', 'maximum_value')
                                 if not p.meta_kinds else ('dimension', 'element_limit', 'axis'))
        if p.full_attrs:
            dim = list(aj['shape'][1:]) or [1]
            m = draw(st.integers(0, 3))
            if m in (1, 3):
                op['attrs']['dimension'] = {'v': dim, 'r': draw_route(draw, p, False)}
            if m in (2, 3):
                el = [d + draw(st.integers(0, 2)) for d in dim] if draw(st.booleans()) else dim
                op['attrs']['element_limit'] = {'v': el, 'r': draw_route(draw, p, False)}
            axes = [k for k in g.by_kind.get('axis', [])
                    if 'coordinates' not in g.ops[k]['attrs']
                    or len(model.flatten(g.ops[k]['attrs']['coordinates']['v'])) == dim[0]]
            if axes and draw(st.booleans()):
                op['attrs']['axis'] = {'v': [{'$ref': draw(st.sampled_from(axes))}], 'r': draw_route(draw, p, False)}
        sn = g.set_for(draw, 'channel')
        if sn is not None:
            op['set'] = sn
        ch_idx.append(g.add(op))
    if p.shared_datasets and draw(st.integers(0, 2)) == 0:
        src = draw(st.sampled_from(ch_idx))
        sop = g.ops[src]
        name = draw_name(draw, p)
        k = 0
        while name in used_names:
            k += 1
            name = name + str(k)
        used_names.add(name)
        op = {'t': 'channel', 'name': name, 'data': sop['data'], 'data_from': src, 'attrs': {}}
        if draw(st.booleans()):
            cast = well_defined_cast(draw, sop['data']['dt'][1:], sop['data'])
            if cast:
                op['cast'] = DTYPE_NAME[cast]
        if sop.get('set') is not None:
            op['set'] = sop['set']
        ch_idx.append(g.add(op))
    fop = {'t': 'frame', 'name': draw_name(draw, p), 'attrs': {
        'channels': {'v': [{'$ref': i} for i in ch_idx], 'r': 'kw'}}}
    if indexed:
        it = draw(st.sampled_from(ENUMS['FrameIndexType']))
        fop['attrs']['index_type'] = {'v': it, 'r': 'kw'}
    sn = g.set_for(draw, 'frame')
    if sn is not None:
        fop['set'] = sn
    extra = draw_attrs(draw, 'frame', g, only=('description', 'encrypted') if not p.full_attrs else
                       ('description', 'encrypted', 'direction', 'spacing', 'index_min', 'index_max'))
    fop['attrs'].update(extra)
    if indexed and p.full_attrs and p.units and draw(st.integers(0, 3)) == 0:
        # units without a value on the index description: the value is derived from the data at write(), the units are
        # the user's (and must not be replaced by those of the index channel)
        for k in ('index_min', 'index_max', 'spacing'):
            if k not in fop['attrs'] and draw(st.booleans()):
                fop['attrs'][k] = {'u': draw(st.sampled_from(['ft', 'm', 's', 'in'])),
                                   'r': draw(st.sampled_from(['dict', 'setup', 'later']))}
    return g.add(fop)


def pick_axes(draw, g, dims):
    """One axis reference per dimension entry, each with a matching number of coordinates (or none). None if impossible."""
    refs = []
    for d in dims:
        axes = [k for k in g.by_kind.get('axis', [])
                if 'coordinates' not in g.ops[k]['attrs']
                or len(model.flatten(g.ops[k]['attrs']['coordinates']['v'])) == d]
        if not axes:
            return None
        refs.append({'$ref': draw(st.sampled_from(axes))})
    return refs


def draw_dimension_and_axis(draw, g, op, dims):
    p = g.profile
    if not p.full_attrs:
        return
    if dims is None:
        if draw(st.integers(0, 2)):
            return
        dims = [draw(st.integers(1, 4)) for _ in range(draw(st.integers(1, 2)))]
        op['attrs']['dimension'] = {'v': dims, 'r': draw_route(draw, p, False)}
    elif draw(st.booleans()):
        op['attrs']['dimension'] = {'v': dims, 'r': draw_route(draw, p, False)}
    if draw(st.booleans()):
        refs = pick_axes(draw, g, dims)
        if refs:
            op['attrs']['axis'] = {'v': refs, 'r': draw_route(draw, p, False)}


# ------------------------------------------------------------------ metadata objects with their inter-attribute rules

def draw_meta(draw, kind, g):
    p = g.profile
    name = draw_name(draw, p)
    op = {'t': kind, 'name': name, 'attrs': {}}
    sn = g.set_for(draw, kind)
    if sn is not None:
        op['set'] = sn
    attrs = TYPES[kind]['attrs']
    if kind == 'zone':
        op['attrs'] = draw_attrs(draw, kind, g, only=('description', 'domain'))
        dom = op['attrs'].get('domain', {}).get('v')
        mode = draw(st.integers(0, 3))
        if mode:
            is_time = dom in (None, 'TIME') and draw(st.booleans())
            for key in ('maximum', 'minimum'):
                if mode == 3 or draw(st.booleans()):
                    v = draw_datetime(draw) if is_time else draw(nums(p))
                    u = draw_units(draw, p) if not is_time else None
                    op['attrs'][key] = {'v': v, 'u': u, 'r': draw_route(draw, p, u is not None)}
    elif kind in ('parameter', 'computation'):
        op['attrs'] = draw_attrs(draw, kind, g, exclude=('values', 'zones', 'dimension', 'axis', 'source'))
        zc = g.candidates(['zone'])
        nz = 0
        if zc and draw(st.booleans()):
            nz = draw(st.integers(1, min(3, len(zc))))
            op['attrs']['zones'] = {'v': [{'$ref': draw(st.sampled_from(zc))} for _ in range(nz)], 'r': 'kw'}
        if draw(st.integers(0, 3)):
            nv = nz or 1
            a = attrs['values']
            mode = draw(st.integers(0, 2)) if kind == 'parameter' else 2
            if mode == 0:
                elem = lambda: '#' + draw_text(draw, p)
            elif mode == 1:
                elem = lambda: draw(st.integers(-2 ** 31, 2 ** 31 - 1))
            else:
                elem = lambda: draw(floats(p))
            shape_mode = draw(st.integers(0, 5)) if nz else 0
            if shape_mode in (1, 2):
                cols = draw(st.integers(1, 3))
                v = [[elem() for _ in range(cols)] for _ in range(nv)]
            elif shape_mode == 3:
                # every value is a small matrix (three levels of nesting)
                r_, c_ = draw(st.integers(1, 2)), draw(st.integers(1, 3))
                v = [[[elem() for _ in range(c_)] for _ in range(r_)] for _ in range(nv)]
            else:
                v = [elem() for _ in range(nv)]
            u = draw_units(draw, p)
            op['attrs']['values'] = {'v': v, 'u': u, 'r': draw_route(draw, p, u is not None)}
            if isinstance(v[0], list):
                dims = [len(v[0])] + ([len(v[0][0])] if isinstance(v[0][0], list) else [])
                draw_dimension_and_axis(draw, g, op, dims)
        else:
            draw_dimension_and_axis(draw, g, op, None)
        if kind == 'computation':
            src = g.candidates(ANY)
            if src and draw(st.integers(0, 2)) == 0:
                op['attrs']['source'] = {'v': {'$ref': draw(st.sampled_from(src))}, 'r': 'kw'}
    elif kind == 'splice':
        ch = g.candidates(['channel'])
        zc = g.candidates(['zone'])
        if ch and draw(st.booleans()):
            op['attrs']['output_channel'] = {'v': {'$ref': draw(st.sampled_from(ch))}, 'r': 'kw'}
        if ch and zc and draw(st.booleans()):
            n = draw(st.integers(1, 3))
            op['attrs']['input_channels'] = {'v': [{'$ref': draw(st.sampled_from(ch))} for _ in range(n)], 'r': 'kw'}
            op['attrs']['zones'] = {'v': [{'$ref': draw(st.sampled_from(zc))} for _ in range(n)], 'r': 'kw'}
        elif ch and draw(st.booleans()):
            n = draw(st.integers(1, 3))
            op['attrs']['input_channels'] = {'v': [{'$ref': draw(st.sampled_from(ch))} for _ in range(n)], 'r': 'kw'}
    elif kind == 'calibration_coefficient':
        op['attrs'] = draw_attrs(draw, kind, g, only=('label',))
        n = draw_count(draw, p, 1, 4)
        for key in ('coefficients', 'references', 'plus_tolerances', 'minus_tolerances'):
            if draw(st.booleans()):
                u = draw_units(draw, p)
                op['attrs'][key] = {'v': [draw(nums(p)) for _ in range(n)], 'u': u,
                                    'r': draw_route(draw, p, u is not None)}
    elif kind == 'calibration_measurement':
        op['attrs'] = draw_attrs(draw, kind, g, exclude=('dimension', 'axis', 'maximum_deviation',
                                                         'standard_deviation', 'standard', 'plus_tolerance',
                                                         'minus_tolerance', 'measurement', 'reference'))
        n = draw(st.integers(1, 3))
        cols = draw(st.integers(0, 3))
        depth3 = cols > 0 and draw(st.integers(0, 3)) == 0
        rws = draw(st.integers(1, 2)) if depth3 else 0
        for key in ('maximum_deviation', 'standard_deviation', 'standard', 'plus_tolerance', 'minus_tolerance'):
            if draw(st.booleans()):
                if cols == 0:
                    v = [draw(nums(p)) for _ in range(n)]
                elif depth3:
                    v = [[[draw(nums(p)) for _ in range(cols)] for _ in range(rws)] for _ in range(n)]
                else:
                    v = [[draw(nums(p)) for _ in range(cols)] for _ in range(n)]
                u = draw_units(draw, p)
                op['attrs'][key] = {'v': v, 'u': u, 'r': draw_route(draw, p, u is not None)}
        if cols:
            draw_dimension_and_axis(draw, g, op, [rws, cols] if depth3 else [cols])
        for key in ('measurement', 'reference'):
            if draw(st.integers(0, 2)) == 0:
                u = draw_units(draw, p)
                op['attrs'][key] = {'v': [draw(nums(p)) for _ in range(draw(st.integers(1, 4)))], 'u': u,
                                    'r': draw_route(draw, p, u is not None)}
    elif kind == 'axis':
        op['attrs'] = draw_attrs(draw, kind, g)
    elif kind == 'group':
        op['attrs'] = draw_attrs(draw, kind, g)
    else:
        op['attrs'] = draw_attrs(draw, kind, g)
    return g.add(op)


def draw_origin(draw, g, first):
    p = g.profile
    op = {'t': 'origin', 'name': draw_name(draw, p), 'attrs': {}}
    op['attrs'] = draw_attrs(draw, 'origin', g, exclude=('file_set_number', 'creation_time'))
    if p.pin_origin:
        op['attrs']['file_set_number'] = {'v': draw(st.integers(1, 2 ** 30 - 1)), 'r': 'kw'}
        ct = draw_datetime(draw)
        if draw(st.integers(0, 5)) == 0:
            ct = (datetime(1970, 1, 1) + timedelta(seconds=draw(st.integers(0, 2 * 10 ** 9)))).strftime(
                draw(st.sampled_from(["%Y/%m/%d %H:%M:%S", "%Y.%m.%d %H:%M:%S"])))
        op['attrs']['creation_time'] = {'v': ct, 'r': 'kw'}
    if p.explicit_origin_refs and draw(st.integers(0, 2)) == 0:
        op['oref'] = draw(st.one_of(st.integers(1, 40), st.sampled_from([127, 128, 129, 200, 255, 256, 16383, 16384, 70000])))
    sn = g.set_for(draw, 'origin')
    if sn is not None:
        op['set'] = sn
    return g.add(op)


META_ORDER = ['long_name', 'axis', 'zone', 'equipment', 'well_reference_point', 'parameter', 'computation',
              'calibration_coefficient', 'calibration_measurement', 'calibration', 'tool', 'process', 'splice',
              'path', 'message', 'comment', 'group', 'no_format']


def draw_logical_file(draw, profile, lf_index=0, rows_fixed=None):
    g = GenCtx(profile)
    # origins
    n_or = draw(st.integers(1, profile.max_origins))
    pos = draw(st.sampled_from(list(profile.origin_position)))
    pending_origins = n_or
    if pos == 'first':
        draw_origin(draw, g, True)
        pending_origins -= 1
    if profile.full_attrs and 'axis' in profile.meta_kinds:
        for _ in range(draw(st.integers(0, 2))):
            draw_meta(draw, 'axis', g)
    # frames with their channels
    nfr = draw(st.integers(1, profile.max_frames))
    frames = []
    for f in range(nfr):
        frames.append(draw_frame(draw, g, f, rows=rows_fixed))
        if pos == 'middle' and pending_origins == n_or:
            draw_origin(draw, g, True)
            pending_origins -= 1
    # metadata
    if profile.meta_kinds:
        n_meta = draw(st.integers(0, profile.max_meta))
        kinds = draw(st.lists(st.sampled_from(list(profile.meta_kinds)), min_size=n_meta, max_size=n_meta))
        if profile.must_kind:
            kinds = kinds[:max(0, profile.max_meta - 1)] + [profile.must_kind]
        kinds = sorted(kinds, key=META_ORDER.index)
        for k in kinds:
            draw_meta(draw, k, g)
            if pending_origins and pending_origins < n_or and draw(st.integers(0, 3)) == 0:
                draw_origin(draw, g, False)
                pending_origins -= 1
    # no-format objects and payloads
    if profile.noformat:
        nnf = draw(st.integers(0, profile.noformat))
        nf_idx = []
        for _ in range(nnf):
            nf_idx.append(draw_meta(draw, 'no_format', g))
        if nf_idx:
            for _ in range(draw(st.integers(0, 5))):
                g.add({'t': 'nfdata', 'target': {'$ref': draw(st.sampled_from(nf_idx))},
                       'payload': draw_payload(draw, profile)})
    while pending_origins:
        draw_origin(draw, g, pending_origins == n_or)
        pending_origins -= 1
    # explicit origin references on some objects (only to origins that exist before them)
    if profile.explicit_origin_refs:
        seen_origins = []
        later_explicit = [i for i, op in enumerate(g.ops) if op['t'] == 'origin' and isinstance(op.get('oref'), int)]
        for i, op in enumerate(g.ops):
            if op['t'] == 'origin':
                seen_origins.append(i)
            elif op['t'] != 'nfdata' and seen_origins and draw(st.integers(0, 4)) == 0:
                op['oref'] = {'$origin': draw(st.sampled_from(seen_origins))}
            elif op['t'] != 'nfdata' and draw(st.integers(0, 5)) == 0:
                # the number of an origin that will only be added later (allowed: the reference is a plain integer)
                later = [k for k in later_explicit if k > i]
                if later:
                    op['oref'] = {'$origin_later': draw(st.sampled_from(later))}
    hdr = {}
    if profile.hdr_variants:
        hdr = {'id': draw(st.text(alphabet=UPPER if profile.upper_names else PRINTABLE,
                                  min_size=1 if profile.upper_names else 0, max_size=65)),
               'seq': draw(st.one_of(st.integers(1, 20), st.integers(1, 10 ** 10 - 1))),
               'ident': draw(st.sampled_from(['0', 'A', 'x', '9'])) if not profile.upper_names else '0',
               'route': draw(st.sampled_from(['kw', 'obj']))}
    return {'hdr': hdr, 'ops': g.ops}


def draw_payload(draw, profile, vrl=None):
    kind = draw(st.sampled_from(['bytes', 'bytearray', 'str']))
    mode = draw(st.integers(0, 3))
    if mode == 0:
        n = draw(st.integers(0, 12))
    elif mode == 1:
        n = draw(st.integers(0, profile.nf_payload_max))
    else:
        n = draw(st.integers(0, max(1, profile.nf_payload_max // 4)))
    raw = draw(st.binary(min_size=n, max_size=n)) if n <= 48 else bytes((i * 37 + n) & 0xFF for i in range(n))
    if kind == 'str':
        raw = bytes(b & 0x7F for b in raw)
    if draw(st.integers(0, 5)) == 0 and n:
        raw = raw[:-1] + b'\x01'
    return {'k': kind, 'hex': raw.hex()}


def shuffle_ops(draw, lf):
    """Permute ops of one logical file subject to 'target exists before referrer'. Rewrites reference indices."""
    ops = lf['ops']
    n = len(ops)
    prio = [draw(st.integers(0, 1000)) for _ in range(n)]
    deps = []
    for op in ops:
        d = set()

        def walk(v):
            if isinstance(v, dict):
                if '$ref' in v:
                    d.add(v['$ref'])
                elif '$origin' in v:
                    d.add(v['$origin'])
                elif '$origin_later' in v:
                    pass      # a plain number: no ordering constraint
                else:
                    for x in v.values():
                        walk(x)
            elif isinstance(v, list):
                for x in v:
                    walk(x)
        walk(op)
        deps.append(d)
    placed = []
    remaining = set(range(n))
    while remaining:
        ready = [i for i in remaining if deps[i] <= set(placed)]
        nxt = min(ready, key=lambda i: (prio[i], i))
        placed.append(nxt)
        remaining.discard(nxt)
    new_index = {old: new for new, old in enumerate(placed)}

    def remap(v):
        if isinstance(v, dict):
            if '$ref' in v:
                return {'$ref': new_index[v['$ref']]}
            if '$origin' in v:
                return {'$origin': new_index[v['$origin']]}
            if '$origin_later' in v:
                return {'$origin_later': new_index[v['$origin_later']]}
            return {k: remap(x) for k, x in v.items()}
        if isinstance(v, list):
            return [remap(x) for x in v]
        return v
    lf['ops'] = [remap(ops[i]) for i in placed]
    return lf


def min_rows(lf):
    rows = [op['data']['shape'][0] for op in lf['ops'] if op['t'] == 'channel' and op.get('data')]
    return min(rows) if rows else 0


@st.composite
def file_specs(draw, profile):
    vrl = draw_vrl(draw, profile)
    spec = {'kind': 'spec', 'sul': {'vrl': vrl}, 'lfs': [], 'write': {}}
    if profile.reuse_ref_lists and draw(st.booleans()):
        spec['reuse_ref_lists'] = True
    if profile.sul_variants:
        spec['sul'].update({'id': draw(st.text(alphabet=UPPER if profile.upper_names else PRINTABLE,
                                               min_size=1 if profile.upper_names else 0, max_size=60)),
                            'seq': draw(st.integers(0, 9999)),
                            'route': draw(st.sampled_from(['kw', 'obj']))})
        if draw(st.integers(0, 3)) == 0:
            # constructed with another maximum record length, which is changed on the label before anything is written
            first = draw(st.sampled_from([8192, 16384, 256, 1000, 20]))
            if first != spec['sul'].get('vrl', 8192):
                spec['sul']['vrl_first'] = first
    nlf = draw(st.integers(1, profile.max_lfs))
    w = spec['write']
    rows_fixed = None
    if len(profile.sources) > 1 or profile.sources[0] != 'inline':
        w['source'] = draw(st.sampled_from(list(profile.sources)))
        if w['source'] == 'struct':
            rows_fixed = draw(st.integers(1, profile.max_rows))     # a structured array has one row count
    for i in range(nlf):
        lf = draw_logical_file(draw, profile, i, rows_fixed)
        if profile.shuffle:
            lf = shuffle_ops(draw, lf)
        if nlf > 1 and profile.lf_distinct_sets:
            # logical files sharing a set name share the set object (C18 finding): keep them apart by construction
            for op in lf['ops']:
                if op['t'] != 'nfdata' and (i > 0 or op.get('set') is not None):
                    op['set'] = f"{op.get('set') or op['t'].upper()}-LF{i}"
        spec['lfs'].append(lf)
    if nlf > 1 and profile.interleave:
        order = []
        pos = [0] * nlf
        total = sum(len(lf['ops']) for lf in spec['lfs'])
        while len(order) < total:
            live = [i for i in range(nlf) if pos[i] < len(spec['lfs'][i]['ops'])]
            i = draw(st.sampled_from(live))
            order.append([i, pos[i]])
            pos[i] += 1
        spec['order'] = order
    rows = min(min_rows(lf) for lf in spec['lfs'])
    if profile.chunks:
        m = draw(st.integers(0, 4))
        if m == 1:
            w['ics'] = 1
        elif m == 2:
            w['ics'] = draw(st.integers(1, max(1, rows)))
        elif m == 3:
            w['ics'] = rows + draw(st.integers(0, 5))
        m = draw(st.integers(0, 3))
        if m == 1:
            w['ocs'] = vrl
        elif m == 2:
            w['ocs'] = vrl + draw(st.integers(0, 300))
        elif m == 3:
            w['ocs'] = float(vrl + draw(st.integers(0, 3000)))
    if profile.preludes:
        m = draw(st.integers(0, 7))
        if m < 3:
            # the process has written before, with the same write options: a write that failed half-way (m = 0, 1) or a
            # successful one (m = 2). Neither may show in this file.
            w['prelude'] = ['failed-rows', 'failed-missing', 'ok'][m]
    if profile.windows and rows > 1 and draw(st.booleans()):
        f = draw(st.integers(0, rows - 1))
        t = draw(st.one_of(st.none(), st.integers(f + 1, rows)))
        w['from'] = f
        if t is not None:
            w['to'] = t
    return spec
