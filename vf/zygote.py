"""Fresh-process oracle server.

Imports the code under test but never calls it.  For every request line {"spec":..., "path":..., "scratch":...} it
forks; the child (whose process state is exactly import-time state, i.e. a fresh process) builds the specification,
writes the file and exits; the parent answers {"outcome": "written"|"raised", "exc": "..."} and stays pristine.
"""
import json
import os
import sys


def main():
    fd = os.open(os.devnull, os.O_WRONLY)
    os.dup2(fd, 2)
    out = os.fdopen(os.dup(1), 'w')
    os.dup2(fd, 1)
    import numpy  # noqa
    import h5py  # noqa
    import dliswriter  # noqa
    from vf.spec import build as B   # imports only
    from vf import dw
    out.write(json.dumps({'ready': True, 'dliswriter': os.path.dirname(dliswriter.__file__)}) + '\n')
    out.flush()
    for line in sys.stdin:
        line = line.strip()
        if not line:
            continue
        req = json.loads(line)
        if req.get('quit'):
            break
        pid = os.fork()
        if pid == 0:
            code = 0
            try:
                r = B.build_and_write(req['spec'], req['path'], req['scratch'])
                res = {'outcome': r['outcome'], 'stage': r['stage']}
                if r['exc'] is not None:
                    tn, site = dw.exc_site(r['exc'])
                    res['exc'] = f"{tn}@{site}: {r['exc']}"[:300]
            except BaseException as exc:     # harness problem inside the child
                res = {'outcome': 'harness-error', 'exc': repr(exc)[:300]}
                code = 3
            with open(req['path'] + '.status', 'w') as f:
                json.dump(res, f)
            os._exit(code)
        os.waitpid(pid, 0)
        try:
            with open(req['path'] + '.status') as f:
                res = json.load(f)
            os.remove(req['path'] + '.status')
        except Exception as exc:
            res = {'outcome': 'harness-error', 'exc': f"child left no status: {exc}"}
        out.write(json.dumps(res) + '\n')
        out.flush()


if __name__ == '__main__':
    main()
