"""Enumeration and Hypothesis strategies for the synthetic segmentation layer (shared by C01, C02, C15)."""
from hypothesis import strategies as st

FILLER = {'e': 0, 't': 1, 'L': 20, 'a': 11, 'b': 5}
FILLER2 = {'e': 1, 't': 3, 'L': 31, 'a': 13, 'b': 9}


def window_lengths(cap, upto=40, ks=(1, 2, 3), d=14):
    out = set(range(1, upto + 1))
    for k in ks:
        for dd in range(-d, d + 1):
            L = k * cap + dd
            if L >= 1:
                out.add(L)
    return sorted(out)


def small_vrls():
    return list(range(20, 161, 2))


def sampled_large_vrls(seed, n=64):
    fixed = [8192, 16382, 16384, 162, 256, 1024]
    out = list(fixed)
    i = 0
    while len(out) < n:
        v = 162 + 2 * ((seed * 7919 + i * 2531 + 17) % 8112)
        i += 1
        if v not in out and v <= 16384:
            out.append(v)
    return out


def enumerate_synth(ctx, two_records=True):
    """Yield the enumerated (vrl, L) window for this shard."""
    idx = 0
    if ctx.tier == 'quick':
        plan = [(v, range(1, 3 * (v - 8) + 31)) for v in small_vrls()]
        plan += [(v, window_lengths(v - 8)) for v in sampled_large_vrls(ctx.seed)]
    else:
        plan = [(v, range(1, 3 * (v - 8) + 31)) for v in small_vrls()]
        plan += [(v, window_lengths(v - 8)) for v in range(162, 16385, 2)]
    # records of hundreds to thousands of segments (small record lengths keep them cheap)
    plan += [(v, [k * (v - 8) + d for k in (300, 1000, 1500) for d in (0, 5)]) for v in (20, 32, 64)]
    for vrl, lengths in plan:
        for L in lengths:
            idx += 1
            if idx % ctx.nshards != ctx.shard:
                continue
            e = (L + vrl // 2) & 1
            t = (L * 3 + vrl) % 12
            recs = [{'e': e, 't': t, 'L': L, 'a': (2 * L + 1) % 255 | 1, 'b': vrl % 251,
                     'tail': '01' * (1 + L % 3) if L % 5 == 0 else ''}]
            if two_records:
                if L <= 4 * vrl:
                    # twins of the record: same length and type number with the other explicit/indirect flag, and same
                    # length and flag with another type number (anything remembered per size must not mix them up)
                    recs.append(dict(recs[0], e=1 - e))
                    recs.append(dict(recs[0], t=(t + 1) % 12))
                recs.append(dict(FILLER2 if e == 0 else FILLER))
            yield {'kind': 'synth', 'vrl': vrl, 'recs': recs}


def exhaustive_scope(tier):
    if tier == 'quick':
        return ("every (vrl, L) with vrl even in 20..160 and L in 1..3*(vrl-8)+30; plus 64 larger vrl "
                "(8192, 16382, 16384, 162, 256, 1024 and seed-dependent ones) x L in 1..40 and k*(vrl-8)+d, "
                "k<=3, |d|<=14; plus records of 300 / 1000 / 1500 segments at vrl 20, 32, 64")
    return ("every (vrl, L) with vrl even in 20..160 and L in 1..3*(vrl-8)+30; plus EVERY even vrl in 162..16384 "
            "x L in 1..40 and k*(vrl-8)+d, k<=3, |d|<=14; plus records of 300 / 1000 / 1500 segments at vrl 20, 32, 64")


@st.composite
def synth_cases(draw, min_vrl=20):
    """Sequences of 1-8 records of mixed lengths/types, random vrl (biased to small) and output chunk size."""
    vrl = draw(st.one_of(st.integers(min_vrl // 2, 100), st.integers(min_vrl // 2, 8192),
                         st.sampled_from([4096, 8191, 8192]))) * 2
    vrl = max(min_vrl, vrl)
    cap = vrl - 8
    n = draw(st.integers(1, 8))
    recs = []
    for _ in range(n):
        mode = draw(st.integers(0, 5))
        if cap <= 56 and draw(st.integers(0, 40)) == 0:
            mode = 9
            L = draw(st.integers(100, 1600)) * cap + draw(st.integers(-14, 14))
        elif mode == 0:
            L = draw(st.integers(1, 40))
        elif mode in (1, 2):
            k = draw(st.integers(1, 5))
            L = max(1, k * cap + draw(st.integers(-14, 14)))
        elif mode == 3:
            L = draw(st.integers(1, max(1, cap)))
        else:
            L = draw(st.integers(1, max(2, min(6 * cap, 60000))))
        L = max(1, L)
        rec = {'e': draw(st.integers(0, 1)), 't': draw(st.integers(0, 255)), 'L': L,
               'a': draw(st.integers(0, 127)) * 2 + 1, 'b': draw(st.integers(0, 255))}
        if draw(st.integers(0, 3)) == 0:
            rec['tail'] = draw(st.binary(min_size=1, max_size=6)).hex()
        elif draw(st.integers(0, 3)) == 0:
            rec['tail'] = '01' * draw(st.integers(1, 5))
        recs.append(rec)
        if len(recs) < 8 and draw(st.integers(0, 3)) == 0:
            twin = dict(rec)
            if draw(st.booleans()):
                twin['e'] = 1 - rec['e']
            else:
                twin['t'] = (rec['t'] + draw(st.integers(1, 255))) % 256
            recs.append(twin)
    case = {'kind': 'synth', 'vrl': vrl, 'recs': recs}
    oc = draw(st.integers(0, 4))
    if oc == 1:
        case['ocs'] = vrl
    elif oc == 2:
        case['ocs'] = vrl + draw(st.integers(0, 200))
    elif oc == 3:
        case['ocs'] = draw(st.integers(vrl, vrl * 4 + 100))
    if draw(st.booleans()):
        ident = draw(st.text(alphabet=st.characters(min_codepoint=32, max_codepoint=126), max_size=60))
        case['sul'] = {'id': ident, 'seq': draw(st.integers(0, 9999))}
    return case
