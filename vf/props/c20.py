"""C20 - A rejected call leaves no trace in later files."""
import copy

import numpy as np
from hypothesis import strategies as st

from vf import dw
from vf.core import Property, Result, Violation
from vf.fresh import Fresh
from vf.spec import build as B
from vf.spec.strategies import Profile, file_specs
from vf.props.c14 import localise
from vf.props.e2e import outcome_label

META = ('zone', 'parameter', 'equipment', 'comment', 'axis', 'tool', 'process', 'long_name', 'message')

# (kind of rejection, op template); '$NAME' is replaced by the drawn name, refs are filled in by the generator
REJECTIONS = {
    'wrong-type-value:zone': {'t': 'zone', 'attrs': {'description': {'v': 5, 'r': 'kw'}}},
    'wrong-type-value:equipment': {'t': 'equipment', 'attrs': {'height': {'v': 'tall', 'r': 'kw'}}},
    'wrong-type-value:comment': {'t': 'comment', 'attrs': {'text': {'v': [1, 2], 'r': 'kw'}}},
    'wrong-type-value:message': {'t': 'message', 'attrs': {'time': {'v': [1, 2, 3], 'r': 'kw'}}},
    'hard-enum:zone': {'t': 'zone', 'attrs': {'domain': {'v': 'NOWHERE', 'r': 'kw'}}},
    'hard-enum:process': {'t': 'process', 'attrs': {'status': {'v': 'DONE', 'r': 'kw'}}},
    'hard-enum:channel': {'t': 'channel', 'attrs': {'properties': {'v': ['WEIRD'], 'r': 'kw'}}},
    'wrong-class-ref:parameter': {'t': 'parameter', 'attrs': {'zones': {'v': [{'$ref': 'channel'}], 'r': 'kw'}}},
    'wrong-class-ref:tool': {'t': 'tool', 'attrs': {'parts': {'v': [{'$ref': 'channel'}], 'r': 'kw'}}},
    'wrong-class-ref:axis-as-longname': {'t': 'channel', 'attrs': {'long_name': {'v': {'$ref': 'frame'}, 'r': 'kw'}}},
    'unknown-keyword:comment': {'t': 'comment', 'attrs': {}, 'extra_kw': {'colour': 'red'}},
    'dict-key:equipment': {'t': 'equipment', 'attrs': {'weight': {'raw': {'value': 1.5, 'unit': 'kg'}}}},
    'bad-units-type:equipment': {'t': 'equipment', 'attrs': {'weight': {'raw': {'value': 1.5, 'units': 5}}}},
    'units-not-settable:comment': {'t': 'comment', 'attrs': {'text': {'raw': {'value': ['a'], 'units': 'm'}}}},
    'bad-cast:channel': {'t': 'channel', 'cast': 'int64', 'attrs': {}},
    'bad-cast-string:channel': {'t': 'channel', 'cast_raw': 'float32', 'attrs': {}},
    'bad-cast-pytype:channel': {'t': 'channel', 'cast_raw': 'pyfloat', 'attrs': {}},
    'bad-origin-ref:zone': {'t': 'zone', 'oref': 'seven', 'attrs': {}},
    'name-type:zone': {'t': 'zone', 'name_raw': 5, 'attrs': {}},
    'name-type:origin': {'t': 'origin', 'name_raw': 5, 'attrs': {}},
    'dup-dataset:channel': {'t': 'channel', 'dsname': '$EXISTING', 'attrs': {}},
    'non-ndarray-data:channel': {'t': 'channel', 'data_raw': [1, 2, 3], 'attrs': {}},
    'fraction-int:origin-like': {'t': 'axis', 'attrs': {'coordinates': {'v': [{'$ref': 'channel'}], 'r': 'kw'}}},
    'status-range:equipment': {'t': 'equipment', 'attrs': {'status': {'v': 7, 'r': 'kw'}}},
    'dimension-fraction:parameter': {'t': 'parameter', 'attrs': {'dimension': {'v': [2.5], 'r': 'kw'}}},
    'wrong-type-value:origin': {'t': 'origin', 'attrs': {'run_number': {'v': 'not-a-number', 'r': 'kw'}}},
    'wrong-type-value:frame': {'t': 'frame', 'attrs': {'channels': {'v': [{'$ref': 'channel'}], 'r': 'kw'},
                                                       'spacing': {'v': 'wide', 'r': 'kw'}}},
}


@st.composite
def histories(draw, first=None):
    prof = Profile(vrl=[512, 8192], max_frames=2, max_channels=3, max_rows=5, max_width=2, meta_kinds=META,
                   max_meta=5, units=False, name_pool=['P', 'Q', 'R-1'], byte_orders=('<',), noformat=0,
                   sources=('inline', 'inline', 'dict', 'struct'))
    spec = draw(file_specs(prof))
    ops = spec['lfs'][0]['ops']
    nbad = draw(st.integers(1, 3))
    for nb in range(nbad):
        kind = first if (nb == 0 and first) else \
            draw(st.sampled_from(sorted(REJECTIONS) + ['wrong-type-value:origin', 'wrong-type-value:origin',
                                                       'wrong-type-value:frame']))
        bad = copy.deepcopy(REJECTIONS[kind])
        bad['bad'] = kind
        t = bad['t']
        if t == 'channel' and 'data_raw' not in bad and draw(st.booleans()):
            # the rejected call was handed an array (whatever the route by which the valid channels get their data)
            bad['data'] = {'dt': '<f4', 'shape': [draw(st.integers(1, 5))], 'pat': [3, 1]}
            bad['data_inline'] = True
        same = [j for j, op in enumerate(ops) if op['t'] == t and not op.get('bad')]
        # a later valid op of the same type and name makes copy-number shifts visible
        if same and draw(st.integers(0, 3)):
            j = draw(st.sampled_from(same))
            bad['name'] = ops[j]['name']
            pos = draw(st.integers(0, j))
            if ops[j].get('set') is not None:
                bad['set'] = ops[j]['set']
        else:
            bad['name'] = draw(st.sampled_from(['P', 'Q', 'R-1']))
            pos = draw(st.integers(0, len(ops)))
        if draw(st.integers(0, 2)) == 0:
            bad['set'] = 'SET-ONLY-THE-REJECTED-CALL-USES'     # the rejected call is the only one to touch this set
        elif bad.get('set') is None and draw(st.integers(0, 3)) == 0:
            bad['set'] = ''                                     # the unnamed set, spelled as an empty name
        if nb == 0 and first in ('wrong-type-value:origin', 'name-type:origin') and draw(st.booleans()):
            pos = 0                 # the very first call of the history (see the arrangement of the origin sets below)
            bad['set'] = draw(st.sampled_from(['S1', 'S1', '']))     # ('': the rejected call names the unnamed set)
            bad['front'] = True
        spec['lfs'][0]['ops'] = ops = insert_op(ops, pos, bad)
    ops = spec['lfs'][0]['ops']
    if ops and ops[0].pop('front', False):
        # the rejected call is the FIRST origin call of the file and names a set that a later valid origin uses, while the
        # valid origin made first stays in the unnamed set: the defining origin must be the one of the valid history
        valid = [j for j, op in enumerate(ops) if op['t'] == 'origin' and not op.get('bad')]
        if valid:
            if len(valid) == 1:
                extra = copy.deepcopy(ops[valid[0]])
                extra['name'] = 'SECOND-ORIGIN'
                extra.pop('oref', None)
                extra['attrs'] = {k: v for k, v in extra['attrs'].items() if k in ('file_set_number', 'creation_time')}
                ops.append(extra)
                valid.append(len(ops) - 1)
            if ops[0].get('set') == '':
                # the first valid origin goes to a named set, the second to the unnamed one the rejected call had named
                ops[valid[0]]['set'] = 'S1'
                ops[valid[1]].pop('set', None)
            else:
                ops[valid[0]].pop('set', None)
                ops[valid[1]]['set'] = 'S1'
            spec['rejected_origin_first_in_named_set'] = True
    return {'kind': 'reject-history', 'spec': spec}


def insert_op(ops, pos, new):
    """Insert `new` at index pos, shifting reference indices of the other ops; symbolic refs of `new` are resolved to
    an earlier op of the named kind (or dropped with the attribute if none exists)."""
    def shift(v):
        if isinstance(v, dict):
            if '$ref' in v and isinstance(v['$ref'], int):
                return {'$ref': v['$ref'] + 1 if v['$ref'] >= pos else v['$ref']}
            if '$origin' in v:
                return {'$origin': v['$origin'] + 1 if v['$origin'] >= pos else v['$origin']}
            return {k: shift(x) for k, x in v.items()}
        if isinstance(v, list):
            return [shift(x) for x in v]
        return v
    out = [shift(op) for op in ops]

    def resolve(v):
        if isinstance(v, dict):
            if '$ref' in v and isinstance(v['$ref'], str):
                cands = [j for j in range(pos) if ops[j]['t'] == v['$ref'] and not ops[j].get('bad')]
                return {'$ref': cands[-1]} if cands else None
            return {k: resolve(x) for k, x in v.items()}
        if isinstance(v, list):
            r = [resolve(x) for x in v]
            return None if any(x is None for x in r) else r
        return v
    new = dict(new)
    attrs = {}
    for k, a in new.get('attrs', {}).items():
        ra = resolve(a)
        if ra is not None and not (isinstance(ra, dict) and ra.get('v', 0) is None):
            attrs[k] = ra
    new['attrs'] = attrs
    if new.get('dsname') == '$EXISTING':
        prev = [o for o in ops[:pos] if o['t'] == 'channel' and not o.get('bad')]
        if prev:
            names = B.dataset_names({'lfs': [{'ops': ops}]}, 0)
            new['dsname'] = names[[j for j in range(pos) if ops[j]['t'] == 'channel' and not ops[j].get('bad')][-1]]
        else:
            new.pop('dsname')
            new['cast'] = 'int64'
            new['bad'] = 'bad-cast:channel'
    out.insert(pos, new)
    return out


def filtered(spec):
    """The same history without the rejected calls."""
    s = copy.deepcopy(spec)
    ops = s['lfs'][0]['ops']
    keep = [j for j, op in enumerate(ops) if not op.get('bad')]
    new_index = {old: new for new, old in enumerate(keep)}

    def remap(v):
        if isinstance(v, dict):
            if '$ref' in v:
                return {'$ref': new_index[v['$ref']]}
            if '$origin' in v:
                return {'$origin': new_index[v['$origin']]}
            return {k: remap(x) for k, x in v.items()}
        if isinstance(v, list):
            return [remap(x) for x in v]
        return v
    s['lfs'][0]['ops'] = [remap(ops[j]) for j in keep]
    return s


def same_inventory(a, b):
    """Same logical records irrespective of the order of the sets after the origin sets."""
    from vf.rp66 import read_file
    try:
        da, db = read_file(a), read_file(b)
    except Exception:
        return False
    if len(da.records) != len(db.records):
        return False
    return sorted((r.is_eflr, r.type, r.body) for r in da.records) == sorted((r.is_eflr, r.type, r.body)
                                                                            for r in db.records)


@st.composite
def failed_writes(draw, stratum=None):
    prof = Profile(vrl=[512, 8192], max_frames=2, max_channels=3, max_rows=5, max_width=3,
                   meta_kinds=('zone', 'parameter', 'comment', 'equipment'), max_meta=3, units=False,
                   byte_orders=('<',), sources=('dict',))
    spec = draw(file_specs(prof))
    damage = stratum.split('/')[0] if stratum else \
        draw(st.sampled_from(['missing-data', 'bad-ocs', 'wrong-dimension', 'bad-window', 'hc-signed',
                              'hc-nonuniform-index', 'hc-nonuniform-index', 'rejected-assignment',
                              'rejected-assignment', 'rejected-assignment']))
    case = {'kind': 'failed-write', 'spec': spec, 'damage': damage, 'sel': draw(st.integers(0, 50))}
    if damage == 'rejected-assignment':
        case['assign'] = draw(st.lists(st.tuples(st.sampled_from(sorted(BAD_ASSIGNMENTS)), st.integers(0, 7)),
                                       min_size=0 if stratum else 1, max_size=2 if stratum else 3))
        if stratum:
            case['assign'] = [(stratum.split('/')[1], draw(st.integers(0, 7)))] + case['assign']
        case['derive_index'] = draw(st.booleans())
        # a third of the time the rejected assignments come before the file was ever written
        case['first_write'] = draw(st.integers(0, 2)) != 0
    return case


DAMAGES = ['missing-data', 'bad-ocs', 'wrong-dimension', 'bad-window', 'hc-signed', 'hc-nonuniform-index',
           'derived-dimension']


# (object kind, attribute, value that the attribute's converter rejects)
BAD_ASSIGNMENTS = {
    'frame.index_max': ('frame', 'index_max', 'deep'), 'frame.index_min': ('frame', 'index_min', 'x'),
    'frame.spacing': ('frame', 'spacing', 'wide'), 'frame.index_type': ('frame', 'index_type', 5),
    'frame.encrypted': ('frame', 'encrypted', 'yes'),
    'channel.dimension-str': ('channel', 'dimension', 'x'), 'channel.dimension-frac': ('channel', 'dimension', [2.5]),
    'channel.element_limit': ('channel', 'element_limit', [2.5]),
    'channel.representation_code': ('channel', 'representation_code', 'zzz'),
    'channel.units': ('channel', 'units', 5), 'channel.long_name': ('channel', 'long_name', 5),
    # plain properties of the item (no Attribute object): '@name' means setattr(item, name, value)
    'channel.cast_dtype-int64': ('channel', '@cast_dtype', 'np:int64'),
    'channel.cast_dtype-str': ('channel', '@cast_dtype', 'float64'),
    'channel.cast_dtype-bool': ('channel', '@cast_dtype', 'np:bool_'),
}


class C20(Property):
    id = 'C20'
    number = 20
    technique = ("model-based testing of call histories with rejected calls: Hypothesis inserts 1-3 calls that must be "
                 "rejected (27 kinds, before and after the object registers with its set) into valid add_* sequences, "
                 "preferably before a valid call of the same type and name; the file written afterwards must be "
                 "byte-identical to the one a fresh process writes for the history without the rejected calls. Second "
                 "family: a write that raises, the cause removed through the public API, write again vs. fresh process")
    rule = ("cases: valid specification (names from a 3-name pool) + 1-3 rejected calls of kinds wrong-type value, "
            "value outside a hard enumeration, reference of the wrong class, unknown keyword, bad dict key, bad units, "
            "invalid cast dtype, bad origin reference, non-str name, duplicate dataset name, non-array data ...; "
            "failed-write family: missing data / rejected chunk size / wrong user dimension / bad window / HC breach, "
            "then repaired; or write, 1-3 rejected assignments to attributes of existing objects, write another row "
            "range; non-trivial = a rejected call followed by a later valid call of the same type and name, or "
            "a failed write followed by a successful one")
    assumptions = ("a call expected to be rejected that is accepted makes the case inconclusive here (counted), not a "
                   "violation",)

    def setup(self, ctx):
        self.fresh = Fresh(ctx.scratch)
        self.kinds = {}

    def teardown(self, ctx):
        self.fresh.close()

    def extra_stats(self):
        d = {'fresh_process_queries': self.fresh.queries}
        d.update(self.kinds)
        return d

    def searches(self, ctx):
        n = 960 if ctx.tier == 'quick' else 9600
        m = 640 if ctx.tier == 'quick' else 6400
        from vf.core import stratified
        # one stratum per kind of rejected call (the first one of the history), per kind of failed write and per rejected
        # assignment: none of them may depend on how Hypothesis happens to spread a sampled_from
        return stratified('rej', lambda k: histories(k), sorted(REJECTIONS), n, ctx) + \
            stratified('fw', lambda d: failed_writes(d), DAMAGES + ['rejected-assignment/' + k
                                                                   for k in sorted(BAD_ASSIGNMENTS)], m, ctx)

    def run(self, case, ctx):
        dw.check_import_location()
        if case['kind'] == 'failed-write':
            return self.run_failed_write(case, ctx)
        spec = copy.deepcopy(case['spec'])
        special = spec.pop('rejected_origin_first_in_named_set', False)
        ops = spec['lfs'][0]['ops']
        for op in ops:          # raw fields that JSON cannot express through the normal builder path
            if 'name_raw' in op:
                op['name'] = op.pop('name_raw')
            if 'data_raw' in op:
                op['data_raw_list'] = op.pop('data_raw')
        bad_kinds = [op['bad'] for op in ops if op.get('bad')]
        labels = ['rej:' + k for k in bad_kinds] + (['rejected-origin-first-in-named-set'] if special else [])
        nt = False
        for j, op in enumerate(ops):
            if op.get('bad') and any(o['t'] == op['t'] and o.get('name') == op.get('name') and not o.get('bad')
                                     for o in ops[j + 1:]):
                nt = True
                labels.append('same-name-valid-call-follows')
        try:
            b = self.build_tolerant(spec, ctx)
        except B.BuildError as be:
            tn, site = dw.exc_site(be.exc)
            # a valid call failing after a rejected one is a trace of the rejected call if the same history without
            # the rejected calls builds
            oc, _, exc = self.fresh.write(filtered(spec))
            if oc == 'written':
                return Result([Violation(f"later-call-raises/{tn}@{site}/{self.after_registration(bad_kinds)}",
                                         f"{be} after rejected {bad_kinds}")], labels, nt, 'later-call-raised')
            return Result([], labels, False, 'invalid-base')
        if b.accepted_bad:
            for (i, j) in b.accepted_bad:
                k = 'accepted:' + ops[j]['bad']
                self.kinds[k] = self.kinds.get(k, 0) + 1
            return Result([], labels + ['bad-call-accepted'], False, 'bad-call-accepted')
        for (i, j, exc) in b.rejected:
            k = 'rejected:' + ops[j]['bad']
            self.kinds[k] = self.kinds.get(k, 0) + 1
        path = ctx.path()
        try:
            kw = B.write_kwargs(spec)
            data = B.make_source(filtered(spec), b, ctx.scratch)     # (the data of the valid channels only)
            if data is not None:
                kw['data'] = data
            b.df.write(path, **kw)
            with open(path, 'rb') as f:
                mine = ('written', f.read(), None)
        except Exception as exc:
            tn, site = dw.exc_site(exc)
            mine = ('raised', None, f"{tn}@{site}: {exc}"[:300])
        labels.append('src:' + (spec.get('write') or {}).get('source', 'inline'))
        oc, theirs, exc = self.fresh.write(filtered(spec))
        viol = []
        cls = self.after_registration(bad_kinds)
        if mine[0] != oc:
            if mine[0] == 'raised':
                viol.append(Violation(f"write-raises-after-rejected-call/{mine[2].split(':')[0]}/{cls}",
                                      f"{mine[2]} after rejected {bad_kinds}; without them the write succeeds"))
            else:
                viol.append(Violation(f"write-succeeds-only-after-rejected-call/{cls}", f"{exc}"))
        elif oc == 'written' and mine[1] != theirs:
            where, detail = localise(mine[1], theirs)
            if where == 'set-order' and same_inventory(mine[1], theirs):
                # only the order of the sets differs: every order is a valid file, but the rejected call has still left
                # a trace in the bytes (tolerated until the repair of the registry; reported since)
                labels.append('set-order-differs-only')
            viol.append(Violation(f"trace-in-file/{where.split(':')[0]}/{cls}",
                                  f"{where}: {detail}; rejected calls {bad_kinds}"))
        return Result(viol, labels, nt, mine[0], sample={'rejected': bad_kinds,
                                                         'ops': [o['t'] + ('!' if o.get('bad') else '') for o in ops]})

    @staticmethod
    def after_registration(kinds):
        before = ('unknown-keyword', 'name-type', 'dup-dataset', 'non-ndarray-data')
        return 'rejected-before-registration' if all(k.split(':')[0] in before for k in kinds) \
            else 'rejected-after-registration'

    def build_tolerant(self, spec, ctx):
        # data_raw_list: pass a plain list as channel data (must be rejected); done through a tiny wrapper around build
        ops = spec['lfs'][0]['ops']
        raw = {j: op.pop('data_raw_list') for j, op in enumerate(ops) if 'data_raw_list' in op}
        if not raw:
            return B.build(spec, ctx.scratch, tolerate_flagged=True)
        for j in raw:
            ops[j]['extra_kw'] = dict(ops[j].get('extra_kw') or {}, data=raw[j])
        return B.build(spec, ctx.scratch, tolerate_flagged=True)

    def run_failed_write(self, case, ctx):
        spec = copy.deepcopy(case['spec'])
        damage = case['damage']
        sel = case['sel']
        ops = spec['lfs'][0]['ops']
        chans = [j for j, op in enumerate(ops) if op['t'] == 'channel']
        labels = ['damage:' + damage]
        net = copy.deepcopy(spec)
        import contextlib
        hc = contextlib.nullcontext()
        try:
            b = B.build(spec, ctx.scratch)
        except B.BuildError:
            return Result([], labels, False, 'invalid-base')
        data = B.make_source(spec, b, ctx.scratch)
        kw = B.write_kwargs(spec)
        kw1 = dict(kw)
        data1 = dict(data)
        j = chans[sel % len(chans)]
        item = b.items[(0, j)]
        if damage == 'missing-data':
            data1.pop(sorted(data1)[sel % len(data1)])
        elif damage == 'bad-ocs':
            kw1['output_chunk_size'] = spec['sul']['vrl'] - 2
        elif damage == 'bad-window':
            kw1['from_idx'] = 10 ** 6
        elif damage == 'wrong-dimension':
            w = (ops[j]['data']['shape'][1:] or [1])[0]
            try:
                item.dimension.value = [w + 1]
            except Exception:
                return Result([], labels, False, 'damage-not-applicable')
        elif damage == 'hc-signed':
            from dliswriter import high_compatibility_mode
            hc = high_compatibility_mode()
            # a signed-integer channel is only a warning outside the mode: give one channel int16 data
            arr = (np.arange(ops[j]['data']['shape'][0] * int(np.prod(ops[j]['data']['shape'][1:] or [1])))
                   .reshape(ops[j]['data']['shape']).astype('<i2'))
            key = B.dataset_names(spec, 0)[j]
            data[key] = arr
            data1[key] = arr
            from vf.spec import model
            net['lfs'][0]['ops'][j]['data'] = model.array_spec_from(arr)
            net['lfs'][0]['ops'][j].pop('cast', None)
            if ops[j].get('cast'):
                return Result([], labels, False, 'damage-not-applicable')
        elif damage == 'derived-dimension':
            # a calibration measurement whose value shapes disagree: the write fails AFTER a DIMENSION was derived from
            # the first of them; the repair gives that attribute the shape of the others
            shape2 = [[1, 2], [3, 4]] if sel % 2 else [[1.5, 2.5, 3.5]]
            flat = [1, 3] if sel % 2 else [1.5]
            which = ('maximum_deviation', 'standard_deviation') if sel % 3 else ('standard', 'plus_tolerance')
            for sp, first_val in ((spec, shape2), (net, flat)):
                sp['lfs'][0]['ops'].append({'t': 'calibration_measurement', 'name': 'CM-DAMAGED', 'attrs': {
                    which[0]: {'v': first_val, 'r': 'kw'}, which[1]: {'v': flat, 'r': 'kw'}}})
            try:
                b = B.build(spec, ctx.scratch)
            except B.BuildError:
                return Result([], labels, False, 'invalid-base')
            ops = spec['lfs'][0]['ops']
            item = b.items[(0, len(ops) - 1)]
        elif damage == 'hc-nonuniform-index':
            return self.run_hc_nonuniform(case, ctx, labels)
        elif damage == 'rejected-assignment':
            return self.run_rejected_assignment(case, ctx, labels)
        first = 'written'
        try:
            with hc:
                b.df.write(ctx.path(), data=data1, **kw1)
        except Exception as exc:
            first = 'raised'
        if first != 'raised':
            return Result([], labels + ['first-write-did-not-fail'], False, 'first-write-did-not-fail')
        # remove the cause through the public API
        if damage == 'wrong-dimension':
            w = (ops[j]['data']['shape'][1:] or [1])[0]
            item.dimension.value = [w]
            net['lfs'][0]['ops'][j]['attrs']['dimension'] = {'v': [w], 'r': 'later'}
        if damage == 'derived-dimension':
            getattr(item, which[0]).value = flat
        path = ctx.path()
        try:
            b.df.write(path, data=data, **kw)
            with open(path, 'rb') as f:
                mine = ('written', f.read(), None)
        except Exception as exc:
            tn, site = dw.exc_site(exc)
            mine = ('raised', None, f"{tn}@{site}: {exc}"[:300])
        oc, theirs, exc = self.fresh.write(net)
        viol = []
        if mine[0] != oc:
            viol.append(Violation(f"repaired-write-{mine[0]}-fresh-{oc}/{damage}", f"{mine[2]} / {exc}"))
        elif oc == 'written' and mine[1] != theirs:
            where, detail = localise(mine[1], theirs)
            viol.append(Violation(f"failed-write-left-trace/{damage}/{where.split(':')[0]}", f"{where}: {detail}"))
        return Result(viol, labels, mine[0] == 'written', 'repaired-' + mine[0], sample={'damage': damage})

    def run_hc_nonuniform(self, case, ctx, labels):
        """A write inside high-compatibility mode fails on a non-uniform index after the frame's index values were
        derived; the same DLISFile is then written outside the mode with another row range."""
        from dliswriter import high_compatibility_mode
        from vf.spec import model
        spec = copy.deepcopy(case['spec'])
        ops = spec['lfs'][0]['ops']
        frames = [j for j, op in enumerate(ops) if op['t'] == 'frame']
        f = ops[frames[case['sel'] % len(frames)]]
        cj = f['attrs']['channels']['v'][0]['$ref']
        rows = ops[cj]['data']['shape'][0]
        if rows < 4:
            return Result([], labels, False, 'damage-not-applicable')
        vals = (1000.0 + np.cumsum(np.arange(rows) % 3 + 1)).astype('<f8')
        ops[cj]['data'] = model.array_spec_from(vals)
        ops[cj].pop('cast', None)
        f['attrs']['index_type'] = {'v': 'BOREHOLE-DEPTH', 'r': 'kw'}
        for k in ('spacing', 'index_min', 'index_max', 'direction'):
            f['attrs'].pop(k, None)
        try:
            b = B.build(spec, ctx.scratch)
        except B.BuildError:
            return Result([], labels, False, 'invalid-base')
        data = B.make_source(spec, b, ctx.scratch)
        kw = B.write_kwargs(spec)
        first = 'written'
        try:
            with high_compatibility_mode():
                b.df.write(ctx.path(), data=data, **kw)
        except Exception:
            first = 'raised'
        if first != 'raised':
            return Result([], labels + ['first-write-did-not-fail'], False, 'first-write-did-not-fail')
        net = copy.deepcopy(spec)
        net['write']['from'] = 1
        kw2 = dict(kw, from_idx=1)
        path = ctx.path()
        try:
            b.df.write(path, data=data, **kw2)
            with open(path, 'rb') as fh:
                mine = ('written', fh.read(), None)
        except Exception as exc:
            tn, site = dw.exc_site(exc)
            mine = ('raised', None, f"{tn}@{site}: {exc}"[:300])
        oc, theirs, exc = self.fresh.write(net)
        viol = []
        if mine[0] != oc:
            viol.append(Violation(f"repaired-write-{mine[0]}-fresh-{oc}/hc-nonuniform-index", f"{mine[2]} / {exc}"))
        elif oc == 'written' and mine[1] != theirs:
            where, detail = localise(mine[1], theirs)
            viol.append(Violation(f"failed-write-left-trace/hc-nonuniform-index/{where.split(':')[0]}", f"{where}: {detail}"))
        return Result(viol, labels, mine[0] == 'written', 'repaired-' + mine[0], sample={'damage': 'hc-nonuniform-index'})

    def run_rejected_assignment(self, case, ctx, labels):
        """write; assignments of invalid values to attributes of existing objects (each must raise); write another row
        range. The second file must be the one a fresh process writes for that row range."""
        spec = copy.deepcopy(case['spec'])
        ops = spec['lfs'][0]['ops']
        frames = [j for j, op in enumerate(ops) if op['t'] == 'frame']
        if case.get('derive_index'):
            # the frame's index description is derived from the data at each write
            f = ops[frames[case['sel'] % len(frames)]]
            f['attrs']['index_type'] = {'v': 'BOREHOLE-DEPTH', 'r': 'kw'}
            for k in ('spacing', 'index_min', 'index_max', 'direction'):
                f['attrs'].pop(k, None)
            labels.append('derived-index')
        try:
            b = B.build(spec, ctx.scratch)
        except B.BuildError:
            return Result([], labels, False, 'invalid-base')
        data = B.make_source(spec, b, ctx.scratch)
        kw = B.write_kwargs(spec)
        if case.get('first_write', True):
            try:
                b.df.write(ctx.path(), data=data, **kw)
            except Exception:
                return Result([], labels, False, 'invalid-base')
        else:
            labels.append('assignments-before-first-write')
        for key, sel in case['assign']:
            kind, attr, val = BAD_ASSIGNMENTS[key]
            objs = [j for j, op in enumerate(ops) if op['t'] == kind]
            item = b.items[(0, objs[sel % len(objs)])]
            try:
                if attr.startswith('@'):
                    setattr(item, attr[1:], getattr(np, val[3:]) if isinstance(val, str) and val.startswith('np:') else val)
                else:
                    getattr(item, attr).value = val
            except Exception:
                labels.append('assign:' + key)
                continue
            self.kinds['accepted-assign:' + key] = self.kinds.get('accepted-assign:' + key, 0) + 1
            return Result([], labels + ['bad-assignment-accepted'], False, 'bad-call-accepted')
        rows = min(op['data']['shape'][0] for op in ops if op['t'] == 'channel' and op.get('data'))
        net = copy.deepcopy(spec)
        kw2 = dict(kw)
        if rows >= 2:
            kw2['from_idx'] = net['write']['from'] = 1
            kw2['to_idx'] = net['write']['to'] = max(2, rows - 1)
        path = ctx.path()
        try:
            b.df.write(path, data=data, **kw2)
            with open(path, 'rb') as fh:
                mine = ('written', fh.read(), None)
        except Exception as exc:
            tn, site = dw.exc_site(exc)
            mine = ('raised', None, f"{tn}@{site}: {exc}"[:300])
        oc, theirs, exc = self.fresh.write(net)
        viol = []
        if mine[0] != oc:
            viol.append(Violation(f"write-after-rejected-assignment-{mine[0]}-fresh-{oc}", f"{mine[2]} / {exc}"))
        elif oc == 'written' and mine[1] != theirs:
            where, detail = localise(mine[1], theirs)
            viol.append(Violation(f"rejected-assignment-left-trace/{where.split(':')[0]}",
                                  f"{where}: {detail}; after {[k for k, _ in case['assign']]}"))
        return Result(viol, labels, mine[0] == 'written' and rows >= 2, 'second-' + mine[0],
                      sample={'damage': 'rejected-assignment', 'assign': case['assign']})

    def self_check(self, merged, tier):
        missing = [k for k in REJECTIONS if not merged['labels'].get('rej:' + k)]
        return [f"rejection kinds never generated: {missing}"] if missing else []


PROP = C20()
