"""C14 - Output depends only on the current specification, not on process history."""
import copy
import json
import os

from hypothesis import strategies as st

from vf import dw
from vf.core import Property, Result, Violation, HarnessError
from vf.fresh import Fresh
from vf.rp66 import FormatError, read_file
from vf.spec import build as B, model
from vf.spec.strategies import Profile, file_specs
from vf.spec.table import TYPES
from vf.props.e2e import outcome_label

NUMBER_POOL = [0, -0.0, 0.0, False, 1, 1.0, True, 2, 2.0]
TEXT_POOL = ['A', 'a', 'B', '0', '1', 'AB', 'L' * 128, 'M' * 200]      # (long ones: 1- vs 2-byte length prefixes)
NAME_POOL = ['N1', 'N2', 'SAME']
META = ('zone', 'parameter', 'equipment', 'comment', 'axis', 'computation', 'well_reference_point', 'message',
        'calibration_coefficient', 'tool', 'long_name')


def slot_profile(source):
    return Profile(vrl=[256, 8192], max_frames=2, max_channels=3, max_rows=5, max_width=2, meta_kinds=META,
                   max_meta=5, attr_routes=('kw', 'dict', 'later'), units=True, unit_enums=False,
                   number_pool=NUMBER_POOL, text_pool=TEXT_POOL, name_pool=NAME_POOL, max_origins=2,
                   explicit_origin_refs=True, sources=(source,), byte_orders=('<',), noformat=1, nf_payload_max=12,
                   named_sets=True)


def other_kind_value(kind, cur, ops, j):
    """A value of another kind than `cur` for an attribute whose representation code follows its value (None: none)."""
    def is_num(x):
        return isinstance(x, (int, float)) and not isinstance(x, bool)
    if kind == 'generic':
        if not isinstance(cur, list) or not cur or any(isinstance(x, (list, dict)) for x in cur):
            return None
        if all(is_num(x) for x in cur):
            return ['T%d' % i for i in range(len(cur))]
        if all(isinstance(x, str) for x in cur):
            return [12.5 + i for i in range(len(cur))]
        return None
    if kind == 'dtnum':
        if isinstance(cur, dict) and '$dt' in cur:
            return 12.5
        if is_num(cur):
            return {'$dt': '2011-02-03T04:05:06', 'tz': 0}
        return None
    if kind == 'reftext':
        if isinstance(cur, str):
            lns = [k for k in range(j) if ops[k]['t'] == 'long_name']
            return {'$ref': lns[-1]} if lns else None
        if isinstance(cur, dict) and '$ref' in cur:
            return 'PLAIN TEXT NOW'
    return None


MUTATION_KINDS = ['value', 'value-kind', 'value-shape', 'rename', 'rename-add', 'origin', 'data', 'data-same-type', 'cast', 'cast-clear',
                  'dimension', 'hdr-seq', 'set-rename']


def other_shape_value(a, op, k):
    """The values of a dimensioned object in another shape (nested <-> flat, same number of outer entries), if no
    DIMENSION was given by the user: the dimension written must follow the current values."""
    if a.kind != 'generic' or not a.nested or 'dimension' in (op.get('attrs') or {}) or 'axis' in (op.get('attrs') or {}):
        return None
    cur = op['attrs'][k]['v']
    if not isinstance(cur, list) or not cur:
        return None
    if all(isinstance(x, list) and x and not any(isinstance(y, (list, dict)) for y in x) for x in cur):
        return [x[0] for x in cur]                      # [[1, 2], [3, 4]] -> [1, 3]
    if all(isinstance(x, (int, float)) and not isinstance(x, bool) for x in cur):
        return [[x, x] for x in cur]                    # [1, 3] -> [[1, 1], [3, 3]]
    return None


def mutation(spec, serial=0, want=None, probe=None, at=None):
    """Strategy for one mutation of `spec`; with `want`, of that kind if some object admits it."""
    ops = spec['lfs'][0]['ops']
    idx = [j for j, op in enumerate(ops) if op['t'] not in ('nfdata',)]
    free_code = [k for k in idx if any(a.kind in ('generic', 'dtnum', 'reftext') and 'v' in (ops[k].get('attrs') or {}).get(kw, {})
                                       for kw, a in TYPES[ops[k]['t']]['attrs'].items())]
    if probe is not None:
        return _mutation_at(spec, serial, probe, 'PROBE', free_code, idx)
    if at is not None:
        return _mutation_at(spec, serial, at, want, free_code, idx)
    if want is not None:
        return _wanted(spec, serial, want, idx)
    return _mutation_at(spec, serial, None, None, free_code, idx)


@st.composite
def _wanted(draw, spec, serial, want, idx):
    for jj in draw(st.permutations(idx)):
        if want in draw(mutation(spec, serial, probe=jj)):
            return draw(mutation(spec, serial, want=want, at=jj))
    return draw(mutation(spec, serial))


@st.composite
def _mutation_at(draw, spec, serial, at, want, free_code, idx):
    ops = spec['lfs'][0]['ops']
    if at is not None:
        j = at
    else:
        j = draw(st.sampled_from(free_code)) if free_code and draw(st.booleans()) else draw(st.sampled_from(idx))
    op = ops[j]
    kinds = []
    # renaming is unambiguous only when no other object of the kind shares the old name (copy numbers are fixed at
    # creation) and the new name is globally fresh
    if sum(1 for o in ops if o['t'] == op['t'] and o.get('name') == op['name']) == 1:
        kinds.append('rename')
        if op['t'] not in ('channel', 'frame', 'origin', 'no_format'):
            kinds.append('rename-add')      # ... and afterwards another object of the type is added under the old / new name
    settable = [k for k, a in TYPES[op['t']]['attrs'].items()
                if a.kind in ('num', 'fdoubl', 'text', 'ident') and not a.multi and k in (op.get('attrs') or {})]
    if settable:
        kinds += ['value', 'value']
    # attributes without a fixed representation code: a value of ANOTHER kind (number <-> text <-> date-time <->
    # object reference) must change the code written, whatever was written before
    rekind = {}
    reshape = {}
    for k, a in TYPES[op['t']]['attrs'].items():
        if a.kind in ('generic', 'dtnum', 'reftext') and 'v' in (op.get('attrs') or {}).get(k, {}):
            nv = other_kind_value(a.kind, op['attrs'][k]['v'], ops, j)
            if nv is not None:
                rekind[k] = nv
            sv = other_shape_value(a, op, k)
            if sv is not None:
                reshape[k] = sv
    if rekind:
        kinds += ['value-kind']
    if reshape:
        kinds += ['value-shape']
    origins = [k for k, o in enumerate(ops) if o['t'] == 'origin' and k < j]   # only origins that exist before the object
    if op['t'] != 'origin' and len(origins) >= 2:
        kinds.append('origin')
    if op['t'] == 'channel' and op.get('data') and spec['write'].get('source') == 'dict' and not op.get('cast'):
        kinds += ['data', 'data-same-type', 'data-same-type']
    if op['t'] == 'channel' and op.get('data'):
        kinds += ['cast', 'dimension']
        if op.get('cast'):
            kinds += ['cast-clear']
    kinds += ['hdr-seq', 'set-rename']
    if want == 'PROBE':
        return kinds
    if want is not None and want in kinds:
        kind = want
    else:
        kind = 'value-kind' if rekind and draw(st.integers(0, 3)) else draw(st.sampled_from(kinds))
    m = {'kind': kind, 'op': j}
    if kind == 'value':
        kw = draw(st.sampled_from(settable))
        a = TYPES[op['t']]['attrs'][kw]
        m['kw'] = kw
        m['v'] = draw(st.sampled_from(NUMBER_POOL)) if a.kind in ('num', 'fdoubl') else draw(st.sampled_from(TEXT_POOL))
    elif kind == 'value-kind':
        kw = draw(st.sampled_from(sorted(rekind)))
        m.update(kind='value', kw=kw, v=rekind[kw], rekind=True)
    elif kind == 'value-shape':
        kw = draw(st.sampled_from(sorted(reshape)))
        m.update(kind='value', kw=kw, v=reshape[kw], reshape=True)
    elif kind == 'rename':
        m['name'] = 'FRESH-' + str(serial)
    elif kind == 'rename-add':
        m['name'] = 'FRESH-' + str(serial)
        m['add'] = draw(st.sampled_from(['old', 'new']))
    elif kind == 'data-same-type':
        # other values, same dtype and shape: only values derived from the data (index statistics) may change
        m['kind'] = 'data'
        d = op['data']
        mode = draw(st.integers(0, 2))
        if mode == 0:
            m['data'] = {'dt': d['dt'], 'shape': d['shape'], 'pat': [draw(st.integers(0, 60)) * 2 + 1, draw(st.integers(0, 255))]}
        else:
            import numpy as np
            n = 1
            for k in d['shape']:
                n *= k
            step = draw(st.sampled_from([1, 2, 3]))
            vals = (np.arange(n) * step if mode == 1 else np.cumsum(np.arange(n) % 3 + 1)).reshape(d['shape'])
            arr = vals.astype(np.dtype(d['dt']))
            m['data'] = {'dt': d['dt'], 'shape': d['shape'], 'hex': arr.tobytes().hex()}
    elif kind == 'hdr-seq':
        m['seq'] = draw(st.sampled_from([2, 77, 1234567890]))
    elif kind == 'set-rename':
        # the set the object lives in gets a (fresh) name, or loses its name if no unnamed set of the type exists
        unnamed_exists = any(o['t'] == op['t'] and not o.get('set') for o in ops)
        m['set'] = None if (op.get('set') and not unnamed_exists and draw(st.booleans())) \
            else 'SET-' + str(serial)
    elif kind == 'dimension':
        w = list(op['data']['shape'][1:]) or [1]
        m['dim'] = draw(st.sampled_from([w, [w[0] + 1], [max(1, w[0] - 1)]]))
    elif kind == 'cast-clear':
        pass
    elif kind == 'cast':
        from vf.spec.strategies import well_defined_cast, DTYPE_NAME
        c = well_defined_cast(draw, op['data']['dt'][1:], op['data'])
        if c is None:
            return {'kind': 'none', 'op': j}
        m['cast'] = DTYPE_NAME[c]
    elif kind == 'data':
        rows = op['data']['shape'][0]
        width = draw(st.sampled_from([0, 0, 1, 2, 3]))
        dt = draw(st.sampled_from(['<f8', '<f4', '<i4', '<u2', '|u1', '<i2']))
        m['data'] = {'dt': dt, 'shape': [rows] if width == 0 else [rows, width],
                     'pat': [draw(st.integers(0, 60)) * 2 + 1, draw(st.integers(0, 255))]}
    else:
        m['to'] = draw(st.sampled_from(origins))
    return m


@st.composite
def histories(draw, force=None):
    n_slots = draw(st.integers(1, 2))
    specs = []
    for slot in range(n_slots):
        source = 'dict' if (slot == 0 and force in ('data', 'data-same-type')) else \
            draw(st.sampled_from(['inline', 'inline', 'dict', 'struct']))
        specs.append(draw(file_specs(slot_profile(source))))
    if force == 'dimension-unframed':
        # a channel that is in no frame (allowed outside high-compatibility mode), described by the user alone
        o = specs[0]['lfs'][0]['ops']
        o.append({'t': 'channel', 'name': 'LONELY', 'attrs': {
            draw(st.sampled_from(['dimension', 'element_limit'])): {'v': [2], 'r': draw(st.sampled_from(['kw', 'later']))}}})
        if specs[0].get('order'):
            specs[0]['order'].append([0, len(o) - 1])
    if force == 'value-shape':
        o = specs[0]['lfs'][0]['ops']
        o.append({'t': 'zone', 'name': 'ZS1', 'attrs': {}})
        o.append({'t': 'zone', 'name': 'ZS2', 'attrs': {}})
        nested = draw(st.booleans())
        o.append({'t': draw(st.sampled_from(['parameter', 'computation'])), 'name': 'SHAPED', 'attrs': {
            'zones': {'v': [{'$ref': len(o) - 2}, {'$ref': len(o) - 1}], 'r': 'kw'},
            'values': {'v': [[1, 2, 3], [4, 5, 6]] if nested else [1.5, 2.5], 'r': draw(st.sampled_from(['kw', 'later']))}}})
        if specs[0].get('order'):
            specs[0]['order'] += [[0, len(o) - 3], [0, len(o) - 2], [0, len(o) - 1]]
    steps = [{'do': 'build', 'slot': 0}]
    built = {0}
    n = draw(st.integers(2, 9))
    for _ in range(n):
        choices = ['write', 'write', 'write']
        if len(built) < n_slots:
            choices += ['build', 'build']
        choices += ['mutate', 'hc-write']
        c = draw(st.sampled_from(choices))
        if c == 'build':
            k = min(set(range(n_slots)) - built)
            steps.append({'do': 'build', 'slot': k})
            built.add(k)
        elif c == 'write':
            k = draw(st.sampled_from(sorted(built)))
            w = {}
            m = draw(st.integers(0, 3))
            if m == 1:
                w['ics'] = draw(st.integers(1, 3))
            if m == 2:
                w['ocs'] = specs[k]['sul']['vrl'] + draw(st.integers(0, 50))
            if specs[k]['write'].get('source') == 'dict' and draw(st.integers(0, 3)) == 0:
                w['partial_data'] = True
            from vf.spec.strategies import min_rows
            rows = min_rows(specs[k]['lfs'][0])
            if rows > 1 and draw(st.integers(0, 2)) == 0:
                f = draw(st.integers(0, rows - 1))
                w['from'] = f
                w['to'] = draw(st.integers(f + 1, rows))
            steps.append({'do': 'write', 'slot': k, 'w': w})
        elif c == 'mutate':
            k = draw(st.sampled_from(sorted(built)))
            steps.append({'do': 'mutate', 'slot': k, 'm': draw(mutation(specs[k], len(steps)))})
        else:
            steps.append({'do': 'hc-write'})
    if not any(s['do'] == 'write' for s in steps):
        steps.append({'do': 'write', 'slot': 0, 'w': {}})
    if force is not None:
        # the stratum's step pattern closes the history: write, the wanted kind of change, write again
        steps = steps[:5]
        steps.append({'do': 'write', 'slot': 0, 'w': {}})
        if force == 'reads':
            pass
        elif force == 'dimension-unframed':
            j = len(specs[0]['lfs'][0]['ops']) - 1
            kw = next(iter(specs[0]['lfs'][0]['ops'][j]['attrs']))
            steps.append({'do': 'mutate', 'slot': 0, 'm': {'kind': 'value', 'op': j, 'kw': kw, 'v': [3]}})
            steps.append({'do': 'write', 'slot': 0, 'w': {}})
        elif force == 'window':
            from vf.spec.strategies import min_rows
            rows = min_rows(specs[0]['lfs'][0])
            f = draw(st.integers(0, max(0, rows - 1)))
            steps.append({'do': 'write', 'slot': 0, 'w': {'from': f, 'to': draw(st.integers(f + 1, max(f + 1, rows)))}})
        else:
            steps.append({'do': 'mutate', 'slot': 0, 'm': draw(mutation(specs[0], len(steps), want=force))})
            steps.append({'do': 'write', 'slot': 0, 'w': {}})
    case = {'kind': 'history', 'specs': specs, 'steps': steps}
    if force == 'reads' or draw(st.integers(0, 3)) == 0:
        # read-only looks at the logical file between add_* calls (lf.frames before the first channel exists ...): they are
        # not part of the specification, so the fresh process does not make them
        case['reads'] = {}
        for k in range(n_slots):
            n_ops = len(specs[k]['lfs'][0]['ops'])
            case['reads'][str(k)] = [[0, draw(st.integers(0, n_ops)), draw(st.sampled_from(['channels', 'frames', 'origins']))]
                                     for _ in range(draw(st.integers(1, 3)))]
    return case


HC_SPEC = {'kind': 'spec', 'hc': True, 'sul': {'vrl': 8192}, 'write': {}, 'lfs': [{'hdr': {}, 'ops': [
    {'t': 'origin', 'name': 'HC-ORIGIN', 'attrs': {'file_set_number': {'v': 1, 'r': 'kw'},
                                                   'creation_time': {'v': {'$dt': '2020-01-01T00:00:00', 'tz': 0},
                                                                     'r': 'kw'}}},
    {'t': 'channel', 'name': 'N1', 'data': {'dt': '<f8', 'shape': [3], 'hex': '00' * 8 + '000000000000f03f' + '0000000000000040'},
     'attrs': {}},
    {'t': 'frame', 'name': 'SAME', 'attrs': {'channels': {'v': [{'$ref': 1}], 'r': 'kw'}}}]}]}


def apply_mutation_to_spec(spec, m):
    op = spec['lfs'][0]['ops'][m['op']]
    if m['kind'] == 'value':
        a = op['attrs'][m['kw']]
        a['v'] = m['v']
        a['r'] = 'later' if a.get('r') == 'later' else a.get('r', 'kw')
    elif m['kind'] == 'rename':
        if op['t'] == 'channel' and op.get('dsname') is None:
            # the dataset name was fixed when the channel was created
            op['dsname'] = B.dataset_names(spec, 0)[m['op']]
        op['name'] = m['name']
    elif m['kind'] == 'rename-add':
        added = {'t': op['t'], 'name': op['name'] if m['add'] == 'old' else m['name'], 'attrs': {}}
        if op.get('set') is not None:
            added['set'] = op['set']
        op['name'] = m['name']
        spec['lfs'][0]['ops'].append(added)
        if spec.get('order'):
            spec['order'].append([0, len(spec['lfs'][0]['ops']) - 1])
    elif m['kind'] == 'origin':
        op['oref'] = {'$origin': m['to']}
    elif m['kind'] == 'data':
        op['data'] = m['data']
    elif m['kind'] == 'cast':
        op['cast'] = m['cast']
    elif m['kind'] == 'cast-clear':
        op.pop('cast', None)
    elif m['kind'] == 'dimension':
        op.setdefault('attrs', {})['dimension'] = {'v': m['dim'], 'r': 'later'}
    elif m['kind'] == 'hdr-seq':
        spec['lfs'][0].setdefault('hdr', {})['seq'] = m['seq']
    elif m['kind'] == 'set-rename':
        old = op.get('set') or None         # ('' and None both mean the unnamed set)
        for o in spec['lfs'][0]['ops']:
            if o['t'] == op['t'] and (o.get('set') or None) == old and o['t'] != 'nfdata':
                if m['set'] is None:
                    o.pop('set', None)
                else:
                    o['set'] = m['set']


def apply_mutation_to_objects(built, spec, m):
    item = built.items[(0, m['op'])]
    op = spec['lfs'][0]['ops'][m['op']]
    if m['kind'] == 'value':
        getattr(item, TYPES[op['t']]['attrs'][m['kw']].py).value = model.to_python(m['v'], lambda k: built.items[(0, k)])
    elif m['kind'] == 'rename':
        item.name = m['name']
    elif m['kind'] == 'rename-add':
        old_name = item.name
        item.name = m['name']
        kw = {'set_name': op['set']} if op.get('set') is not None else {}
        new = getattr(built.lfs[0], TYPES[op['t']]['method'])(old_name if m['add'] == 'old' else m['name'], **kw)
        built.items[(0, len(spec['lfs'][0]['ops']))] = new
    elif m['kind'] == 'origin':
        item.origin_reference = built.items[(0, m['to'])].origin_reference
    elif m['kind'] == 'data':
        pass      # the data are passed at write(); nothing to tell the objects
    elif m['kind'] == 'cast':
        import numpy as np
        item.cast_dtype = getattr(np, m['cast'])
    elif m['kind'] == 'cast-clear':
        item.cast_dtype = None
    elif m['kind'] == 'dimension':
        item.dimension.value = m['dim']
    elif m['kind'] == 'hdr-seq':
        built.lfs[0].file_header.sequence_number = m['seq']
    elif m['kind'] == 'set-rename':
        item.parent.set_name = m['set']


def localise(a, b):
    """Where do two files differ? Returns a short root-cause discriminator."""
    try:
        da, db = read_file(a), read_file(b)
    except FormatError as exc:
        return f"undecodable:{exc.kind}", str(exc)
    ra, rb = da.records, db.records
    if len(ra) != len(rb):
        return 'record-count', f"{len(ra)} vs {len(rb)} records"
    for x, y in zip(ra, rb):
        if x.body == y.body and x.type == y.type:
            continue
        if not x.is_eflr:
            return 'iflr-body', f"IFLR type {x.type} record {x.index}"
        from vf.rp66 import parse_eflr
        sa, sb = parse_eflr(x.body), parse_eflr(y.body)
        if sa.type != sb.type:
            return 'set-order', f"{sa.type} vs {sb.type}"
        if len(sa.objects) != len(sb.objects):
            return f"object-count:{sa.type}", f"{len(sa.objects)} vs {len(sb.objects)}"
        for oa, ob in zip(sa.objects, sb.objects):
            if oa.name != ob.name:
                return "object-name", f"{sa.type}: {oa.name} vs {ob.name}"
            for lab in oa.attrs:
                va, vb = oa.attrs[lab], ob.attrs.get(lab)
                if vb is None:
                    return f"attr-set:{sa.type}", lab
                if (va.absent, va.count, va.code, va.units) != (vb.absent, vb.count, vb.code, vb.units):
                    return f"attr-descriptor:{sa.type}.{lab}", f"{va!r} vs {vb!r}"
                if repr(va.values) != repr(vb.values):
                    if va.values == vb.values:
                        return 'equal-values-different-bytes', f"{sa.type}.{lab}: {va.values!r} vs {vb.values!r}"
                    return f"attr-value:{sa.type}.{lab}", f"{va.values!r} vs {vb.values!r}"
        return f"eflr-bytes:{sa.type}", 'decoded content equal, bytes differ'
    return 'framing', 'same records, different physical layout'


class C14(Property):
    id = 'C14'
    number = 14
    technique = ("model-based testing of call histories: Hypothesis generates sequences of build / write / mutate / "
                 "unrelated-write operations over 1-2 DLISFile objects whose values and names come from a small shared "
                 "pool; after every write the bytes are compared with those produced by a fresh process (pristine "
                 "zygote fork, cross-checked with a real subprocess) for the net specification")
    rule = ("cases: histories of 3-10 steps (build; write with drawn chunk sizes and row window; write again; mutate an "
            "attribute value (same kind, or another kind for attributes without a fixed representation code) / object name (optionally followed by adding an object under the old or the new name) / origin reference / channel data (same or other dtype and width) / cast "
            "dtype (set, cleared) / channel DIMENSION / header sequence number / name of a set; high-compatibility write of an "
            "unrelated file; write with only part of the data dict) over 1-2 specifications drawn from pools {0, -0.0, "
            "0.0, False, 1, 1.0, True, 2, 2.0}, 8 strings (two of 128 and 200 characters), 3 names, named and unnamed "
            "sets; every write is judged against a fresh process; non-trivial = >= 2 writes or a mutation before the "
            "judged write; distinct by history digest")
    assumptions = ("origins pin FILE-SET-NUMBER and CREATION-TIME (the two documented sources of nondeterminism)",
                   "the zygote never calls the code under test, so a forked child is a fresh process")

    def setup(self, ctx):
        self.fresh = Fresh(ctx.scratch)
        self.cross = 0

    def teardown(self, ctx):
        self.fresh.close()

    def extra_stats(self):
        return {'fresh_process_queries': self.fresh.queries, 'subprocess_cross_checks': self.cross}

    def searches(self, ctx):
        n = 640 if ctx.tier == 'quick' else 6400
        from vf.core import stratified
        # free histories, plus one stratum per kind of change between two writes of one file
        return [('histories', histories(), (n // 2) // ctx.nshards)] + \
            stratified('change', lambda k: histories(k), MUTATION_KINDS + ['window', 'reads', 'dimension-unframed'], n // 2, ctx)

    def run(self, case, ctx):
        dw.check_import_location()
        specs = [copy.deepcopy(s) for s in case['specs']]      # net specifications
        built = {}
        viol = []
        labels = []
        set_renamed = set()
        writes = 0
        mutated = False
        swapped = set()      # slots whose channel data were replaced after an earlier write
        written_slots = set()
        outcomes = []
        for step in case['steps']:
            do = step['do']
            if do == 'build':
                k = step['slot']
                try:
                    reads = (case.get('reads') or {}).get(str(k))
                    if reads:
                        labels.append('read-only-access-during-build')
                    built[k] = B.build(dict(specs[k], reads=reads) if reads else specs[k], ctx.scratch)
                except B.BuildError as be:
                    # the same build must fail in a fresh process too
                    oc, _, exc = self.fresh.write(specs[k])
                    if oc == 'written':
                        tn, site = dw.exc_site(be.exc)
                        viol.append(Violation(f"build-raises-only-with-history/{tn}@{site}", str(be)[:300]))
                    return Result(viol, labels + ['build-raised'], False, 'build-raised')
            elif do == 'mutate':
                k = step['slot']
                if k not in built:
                    continue
                m = step['m']
                if m['kind'] == 'none':
                    continue
                if m['kind'] == 'set-rename':
                    set_renamed.add(k)
                if m['kind'] == 'rename-add' and k in set_renamed:
                    # after a set was given another name through its public attribute the logical file still files it
                    # under the old one, so a later add_* opens a second set: not a history with a net specification
                    labels.append('mutation-skipped')
                    continue
                if m['kind'] in ('rename', 'rename-add'):
                    # (the mutation was drawn against the initial specification: an earlier rename-add may have given the
                    # object a namesake, and renaming is only unambiguous for a name that is unique within its type)
                    cur = specs[k]['lfs'][0]['ops']
                    if sum(1 for x in cur if x['t'] == cur[m['op']]['t'] and x.get('name') == cur[m['op']]['name']) != 1:
                        labels.append('mutation-skipped')
                        continue
                try:
                    apply_mutation_to_objects(built[k], specs[k], m)
                except Exception as exc:
                    return Result(viol, labels + ['mutation-raised'], False, 'mutation-raised')
                apply_mutation_to_spec(specs[k], m)
                mutated = True
                if m['kind'] == 'data' and k in written_slots:
                    old_d = case['specs'][k]['lfs'][0]['ops'][m['op']]['data']
                    if (m['data']['dt'], m['data']['shape'][1:]) != (old_d['dt'], old_d['shape'][1:]):
                        swapped.add(k)
                labels.append('mut:' + m['kind'] + ('-kind' if m.get('rekind') else '') + ('-shape' if m.get('reshape') else ''))
            elif do == 'hc-write':
                r = B.build_and_write(HC_SPEC, ctx.path(), ctx.scratch)
                labels.append('hc-write')
                from dliswriter.configuration import global_config
                if global_config.high_compat_mode:
                    viol.append(Violation('hc-flag-leaked/after-context', 'flag still set after the context exited'))
            elif do == 'write':
                k = step['slot']
                if k not in built:
                    continue
                w = step.get('w') or {}
                net = copy.deepcopy(specs[k])
                net['write'] = dict(net.get('write') or {})
                for key in ('ics', 'ocs', 'from', 'to'):
                    if key in w:
                        net['write'][key] = w[key]
                kw = B.write_kwargs(net)
                path = ctx.path()
                b = built[k]
                partial = bool(w.get('partial_data'))
                try:
                    # the caller passes the *same* data object again as long as the data of the specification have not
                    # changed (anything the library did to it at an earlier write would show now)
                    src_key = json.dumps([net['write'].get('source'), net['write'].get('opts'),
                                          [[op.get('name'), op.get('dsname'), op.get('data')] for lf in net['lfs']
                                           for op in lf['ops'] if op['t'] == 'channel']], sort_keys=True, default=str)
                    cache = getattr(b, 'src_cache', None)
                    if cache is not None and cache[0] == src_key and not partial and not isinstance(cache[1], dict):
                        data = cache[1]
                        labels.append('same-data-object-again')
                    else:
                        data = B.make_source(net, b, ctx.scratch)
                        b.src_cache = (src_key, data)
                    if partial and isinstance(data, dict) and len(data) > 1:
                        data.pop(sorted(data)[-1])
                        net['write']['opts'] = {'drop_last': True}
                    if data is not None:
                        kw['data'] = data
                    b.df.write(path, **kw)
                    with open(path, 'rb') as f:
                        mine = ('written', f.read(), None)
                except Exception as exc:
                    tn, site = dw.exc_site(exc)
                    mine = ('raised', None, f"{tn}@{site}: {exc}"[:300])
                writes += 1
                if partial and net['write'].get('opts', {}).get('drop_last'):
                    # fresh process: the same dict without its last key
                    oc, theirs, exc = self.fresh_partial(net, ctx)
                else:
                    oc, theirs, exc = self.fresh.write(net)
                if ctx.shard == 0 and self.cross < 3 and not partial:
                    oc2, theirs2, _ = self.fresh.write_subprocess(net)
                    self.cross += 1
                    if oc2 != oc or theirs2 != theirs:
                        raise HarnessError("zygote-fork oracle and subprocess oracle disagree")
                outcomes.append(mine[0])
                written_slots.add(k)
                stale_desc = None
                if k in swapped:
                    # known finding: channel descriptors derived from the data of an earlier write persist
                    if mine[0] == 'raised' and oc == 'written' and 'channel.py:_set_dimension_from_data' in (mine[2] or ''):
                        stale_desc = mine[2]
                    elif mine[0] == oc == 'written' and mine[1] != theirs:
                        where, detail = localise(mine[1], theirs)
                        if where.startswith('attr-value:CHANNEL.') and where.split('.')[-1] in (
                                'REPRESENTATION-CODE', 'DIMENSION', 'ELEMENT-LIMIT'):
                            stale_desc = f"{where}: {detail}"
                if stale_desc:
                    viol.append(Violation('after-data-swap/stale-channel-descriptors', stale_desc))
                    continue
                if mine[0] != oc:
                    what = 'raises-only-with-history' if mine[0] == 'raised' else 'succeeds-only-with-history'
                    disc = (mine[2] or exc or '').split(':')[0]
                    viol.append(Violation(f"{what}/{disc}{'/partial-data' if partial else ''}",
                                          f"write #{writes}: in-process {mine[0]} ({mine[2]}), fresh process {oc} ({exc})"))
                elif oc == 'written' and mine[1] != theirs:
                    where, detail = localise(mine[1], theirs)
                    viol.append(Violation(f"bytes-differ/{where}", f"write #{writes} (mutated={mutated}): {detail}"))
        nt = writes >= 2 or mutated
        if writes >= 2:
            labels.append('writes>=2')
        return Result(viol, sorted(set(labels)), nt, '+'.join(sorted(set(outcomes))) or 'no-write',
                      sample={'steps': [s['do'] + (':' + s['m']['kind'] if s['do'] == 'mutate' else '')
                                        for s in case['steps']]})

    def fresh_partial(self, net, ctx):
        # build the spec freshly and write with the data dict lacking its last key: done in a real child of the zygote
        # by encoding the drop in the spec's write options
        spec = copy.deepcopy(net)
        spec['write']['opts'] = dict(spec['write'].get('opts') or {})
        spec['write']['opts']['drop_last'] = True
        return self.fresh.write(spec)


PROP = C14()
