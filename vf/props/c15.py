"""C15 - Writability never hinges on byte-size coincidences."""
from vf.core import Property, Result, Violation
from vf import synth, dw
from vf.props import synthgen


class C15(Property):
    id = 'C15'
    number = 15
    fuzz_targets = {'fuzz_segments': 30000}      # atheris campaign in the thorough tier (crashes are replayed through run())
    technique = ("generated-input search ordered by size: bounded-exhaustive (vrl, L) window through DLISWriter and "
                 "size-minimal / size-extreme valid file specifications through DLISFile.write; oracle = the write "
                 "returns normally and the file passes the strict framing parser")
    rule = ("cases: synthetic records of every body length in the enumerated window for every accepted maximum "
            "record length, plus valid size-minimal file specifications (1-byte frame rows, 0..few-byte no-format "
            "payloads, 1-character names) x record lengths; any exception is a violation; non-trivial = a record body "
            "< 12 bytes, or odd, or > 3 capacities, or vrl < 32; distinct by case digest")
    assumptions = ("specifications are valid by construction, so every exception is a violation",)

    def enumerate(self, ctx):
        return synthgen.enumerate_synth(ctx, two_records=False)

    def enumerated_exhaustive_claim(self, tier):
        return True

    def exhaustive_scope(self, tier):
        return synthgen.exhaustive_scope(tier)

    def searches(self, ctx):
        n = 4000 if ctx.tier == 'quick' else 40000
        out = [('synth-sequences', synthgen.synth_cases(), n // ctx.nshards)]
        try:
            from vf.props import e2e
            ne = 2400 if ctx.tier == 'quick' else 40000
            out.append(('size-minimal-specs', e2e.tiny_specs(), ne // ctx.nshards))
        except ImportError:
            pass
        return out

    def run(self, case, ctx):
        if case.get('kind') == 'spec':
            from vf.props import e2e
            return e2e.run_c15(case, ctx)
        r = synth.run_synth(case, ctx.path())
        vrl = case['vrl']
        cap = vrl - 8
        lens = [x['L'] for x in case['recs']]
        labels = ['synth', 'vrl<32' if vrl < 32 else 'vrl>=32']
        labels += sorted({'len:' + synth.length_class(L, cap) for L in lens})
        nontriv = any(L < 12 or L % 2 or L > 3 * cap for L in lens) or vrl < 32
        viol = []
        if r['outcome'] == 'written':
            problems, vrs = synth.check_layout(r['buf'], vrl, None)
            for k, d in problems:
                viol.append(Violation(f"written-but-malformed/{k}", d))
            if vrs is not None:
                problems, _ = synth.check_lossless(vrs, r['given'])
                for k, d in problems:
                    viol.append(Violation(f"written-but-lossy/{k}", d))
        else:
            tn, site = dw.exc_site(r['exc'])
            size_cls = 'L<12' if any(L < 12 for L in lens) else 'L>=12'
            viol.append(Violation(f"raised/{r['outcome']}/{tn}@{site}/{size_cls}/{'vrl<32' if vrl < 32 else 'vrl>=32'}",
                                  f"vrl={vrl} lengths={lens}: {r['exc']}"))
        return Result(viol, labels, nontriv, r['outcome'],
                      sample={'vrl': vrl, 'lengths': lens, 'outcome': r['outcome']})


PROP = C15()
