"""C07 - Object identity is unique and every reference resolves in its logical file."""
from hypothesis import strategies as st

from vf.core import Property, Result, Violation
from vf.spec.strategies import Profile, file_specs
from vf.spec.expect import Expectation
from vf.spec.table import TYPES
from vf.spec import compare
from vf.props import specrun
from vf.props.e2e import outcome_label, ALL_META

POOL = ['A', 'B', 'NAME-3']


def strategy():
    base = dict(vrl=[512, 8192], max_frames=2, max_channels=3, max_rows=3, max_width=2, meta_kinds=ALL_META,
                max_meta=10, units=False, name_pool=POOL, max_origins=3, origin_position=('first', 'middle', 'last'),
                explicit_origin_refs=True, shuffle=True, noformat=2, nf_payload_max=20, min_row_bytes=0,
                reuse_ref_lists=True)
    same = Profile(named_sets=True, **base)
    differ = Profile(named_sets=True, set_names_per_type_differ=True, **base)
    plain = Profile(**base)
    return st.one_of(file_specs(same), file_specs(plain), file_specs(same), file_specs(differ))


def check_identity(dlf):
    out = []
    for key, lst in dlf.objects.items():
        if len(lst) > 1:
            sets = {id(s) for _, s, _ in lst}
            cls = 'same-set' if len(sets) == 1 else 'differently-named-sets-of-one-type'
            out.append(('duplicate-identity', cls, f"{len(lst)} objects share identity {key} "
                                                   f"(set names {[s.name for _, s, _ in lst]})"))
    return out


def check_origins(dlf, exp, i, opmap):
    out = []
    origin_objs = [o for o, s, ri in dlf.objects_of_type('ORIGIN')]
    refs = {o.name[0] for o in origin_objs}
    # the defining origin is the first origin added
    first_origin_op = next((j for j in exp.lfs[i]['order'] if j in exp.lfs[i]['objs']
                            and exp.lfs[i]['objs'][j].kind == 'origin'), None)
    if first_origin_op is None or first_origin_op not in opmap:
        return out
    defining = opmap[first_origin_op][0].name[0]
    # ... and for a reader it is the first object of the first ORIGIN set of the logical file: both must be one object,
    # otherwise every object that did not choose an origin carries a non-defining origin's reference
    if origin_objs and origin_objs[0] is not opmap[first_origin_op][0]:
        out.append(('origin-wrong', 'defining-origin-not-first-in-file',
                    f"the first ORIGIN object of the file is {origin_objs[0].name}, the origin added first is "
                    f"{opmap[first_origin_op][0].name}"))
    for j, eo in exp.lfs[i]['objs'].items():
        if j not in opmap:
            continue
        o = opmap[j][0]
        if o.name[0] not in refs:
            out.append(('origin-not-an-origin-of-this-file', eo.kind, f"{eo.set_type}:{eo.name} has origin "
                                                                      f"{o.name[0]}, ORIGIN objects have {sorted(refs)}"))
            continue
        oref = eo.op.get('oref')
        if eo.kind == 'origin':
            if isinstance(oref, int) and o.name[0] != oref:
                out.append(('origin-explicit-ignored', 'origin', f"origin {eo.name!r} asked for reference {oref}, "
                                                                 f"got {o.name[0]}"))
            continue
        if oref is None:
            want = defining
        elif isinstance(oref, dict):
            t = opmap.get(oref.get('$origin', oref.get('$origin_later')))
            want = t[0].name[0] if t else None
        else:
            want = oref
        if want is not None and o.name[0] != want:
            out.append(('origin-wrong', 'chosen' if oref is not None else 'default',
                        f"{eo.set_type}:{eo.name} has origin {o.name[0]}, expected {want}"))
    for o, s, ri in dlf.objects_of_type('FILE-HEADER'):
        if o.name[0] not in refs:
            out.append(('origin-not-an-origin-of-this-file', 'file-header', f"FILE-HEADER origin {o.name[0]}"))
        elif o.name[0] != defining:
            # nobody can choose another origin for the file header: it belongs to the defining origin
            out.append(('origin-wrong', 'file-header', f"FILE-HEADER has origin {o.name[0]}, the defining origin is "
                                                       f"{defining}"))
    return out


class C07(Property):
    id = 'C07'
    number = 7
    technique = ("Hypothesis-generated object graphs (names from a 3-name pool, 1-3 origins, explicit origin references, "
                 "any call order that defines targets before referrers) written through the public API; validity "
                 "predicates on the decoded file: injective identity map, every OBNAME/OBJREF and IFLR header resolves "
                 "to exactly the object the user passed, origins belong to the file")
    rule = ("cases: up to 10 metadata objects + frames/channels + no-format data with names drawn from a pool of 3, "
            "default / one named set per type / differently named sets of one type, 1-3 origins, explicit origin "
            "references, shuffled call order; non-trivial = a repeated name and >= 3 references, or >= 2 origins, or an "
            "object created before the first origin")

    def searches(self, ctx):
        n = 3200 if ctx.tier == 'quick' else 40000
        return [('graphs', strategy(), n // ctx.nshards)]

    def run(self, spec, ctx):
        r, dec, ferr = specrun.write_and_decode(spec, ctx)
        ops = [op for lf in spec['lfs'] for op in lf['ops']]
        names = [(op['t'], op.get('name')) for op in ops if op['t'] != 'nfdata']
        repeated = len(set(names)) < len(names)
        nrefs = str(spec).count("'$ref'")
        n_or = sum(1 for op in ops if op['t'] == 'origin')
        first_or = next((k for k, op in enumerate(spec['lfs'][0]['ops']) if op['t'] == 'origin'), 0)
        labels = []
        if repeated:
            labels.append('repeated-name')
        if n_or >= 2:
            labels.append('origins>=2')
        if first_or > 0:
            labels.append('object-before-origin')
        if any(isinstance(op.get('oref'), dict) for op in ops):
            labels.append('explicit-origin-ref')
        if any(isinstance(op.get('oref'), dict) and '$origin_later' in op['oref'] for op in ops):
            labels.append('origin-ref-before-origin-exists')
        nt = (repeated and nrefs >= 3) or n_or >= 2 or first_or > 0
        if r['outcome'] != 'written':
            return Result([], labels, False, outcome_label(r))
        viol = []
        if ferr is not None:
            if ferr.kind in ('iflr-frame-unresolved', 'iflr-noformat-unresolved', 'frame-channel-unresolved'):
                # an unresolvable IFLR header / frame channel: look for the root cause (duplicate identities) with a
                # decode that does not need to slice the IFLRs
                from vf.rp66 import read_file
                try:
                    dec2 = read_file(r['buf'], parse_iflr=False)
                    dups = [p for dlf in dec2.logical_files for p in check_identity(dlf)]
                except Exception:
                    dups = []
                if dups:
                    return Result([Violation(f"{k}/{w}", d + f" [seen as {ferr.kind}]") for k, w, d in dups[:1]],
                                  labels, nt, 'written')
            return Result([specrun.fmt_violation(ferr)], labels, False, 'written')
        exp = Expectation(spec)
        for i, dlf in enumerate(dec.logical_files):
            opmap, probs = compare.map_objects(dlf, exp, i)
            probs = [p for p in probs]
            dups = check_identity(dlf)
            if dups:
                # ambiguous references are consequences of the duplicate identity; report the root cause only
                for k, w, d in dups[:1]:
                    viol.append(Violation(f"{k}/{w}", d))
                continue
            probs += [p if p[0].startswith('ref-') else ('ref-ambiguous-typeless', p[1], p[2])
                      for p in compare.check_metadata(dlf, exp, i, opmap)
                      if p[0].startswith('ref-') or p[0] == 'excluded-typeless-ambiguity']
            probs += check_origins(dlf, exp, i, opmap)
            fp, _ = compare.check_frames(dlf, exp, i, opmap)
            probs += fp
            probs += compare.check_noformat(dlf, exp, i, opmap)
            for k, w, d in probs:
                viol.append(Violation(f"{k}/{w}", d))
        return Result(viol, labels, nt, 'written',
                      sample={'objects': [f"{t}:{n}" for t, n in names][:16], 'references': nrefs, 'origins': n_or})


PROP = C07()
