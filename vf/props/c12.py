"""C12 - Fail-closed: a write either raises or yields a faithful, well-formed file."""
import copy

import numpy as np
from hypothesis import strategies as st

from vf import dw
from vf.core import Property, Result, Violation
from vf.rp66 import FormatError, read_file
from vf.spec import build as B, compare, model
from vf.spec.expect import Expectation
from vf.spec.strategies import Profile, file_specs
from vf.props.e2e import outcome_label

MUST_RAISE = 'must-raise'
EITHER = 'either'

NONASCII = ['été', 'naïve', 'ΔT', 'a b', '測井', 'x−y']
BAD_DTYPES = ['<i8', '<u8', '<f2', '|b1', '<c8', '<U3', 'object', '>i8']

CATALOGUE = {
    'rows-unequal': MUST_RAISE, 'dtype': MUST_RAISE, '3d': MUST_RAISE, 'missing-data': MUST_RAISE,
    'long-ident-ok': EITHER, 'long-ident-bad': MUST_RAISE, 'non-ascii': MUST_RAISE, 'int-range': MUST_RAISE,
    'nonfinite-int': MUST_RAISE, 'copy>255': MUST_RAISE, 'no-origin': MUST_RAISE, 'no-channel': MUST_RAISE,
    'no-frame': MUST_RAISE, 'frame-no-channels': MUST_RAISE, 'window': MUST_RAISE, 'zero-rows': MUST_RAISE,
    'empty-list': EITHER, 'ics': MUST_RAISE, 'ocs': MUST_RAISE, 'sul-seq': MUST_RAISE, 'sul-id-long': MUST_RAISE,
    'hdr-id-long': MUST_RAISE, 'dtime-range': MUST_RAISE, 'vrl-invalid': MUST_RAISE, 'hdr-seq': MUST_RAISE,
    'hdr-ident': MUST_RAISE, 'uvari-nonint': MUST_RAISE, 'sul-field-set-later': MUST_RAISE,
    'int-range-list': MUST_RAISE, 'dup-channel-name-in-frame': EITHER,
    # value lists for which no single representation code exists (booleans; text mixed with numbers)
    'no-common-code-list': EITHER,
    # nested value lists that are not rectangular: no DIMENSION can describe them
    'ragged-list': MUST_RAISE,
}


# the primary categorical parameter of the kinds that have one: every (kind, value) is a stratum with its own search,
# because a single sampled_from over all of them is served very unevenly by Hypothesis' mutation-based generation
# (measured: 5 vs 39 cases for two positions of one kind in 4000 examples)
PRIMARY = {
    'rows-unequal': ('how', ['one', 'fewer', 'more']),
    'long-ident-ok': ('pos', ['name', 'set', 'units', 'ident-value', 'channel-name', 'origin-name']),
    'long-ident-bad': ('pos', ['name', 'set', 'units', 'ident-value', 'channel-name', 'origin-name']),
    'non-ascii': ('pos', ['name', 'set', 'sul-id', 'hdr-id', 'units', 'text-value', 'ident-value', 'nf-str',
                          'channel-name']),
    'window': ('how', ['to>rows', 'from<0', 'inverted', 'from>=rows', 'to<0', 'equal']),
    'ocs': ('how', ['below-vrl', 'fraction', 'negative', 'string']),
    'int-range-list': ('where', ['axis-coordinates', 'parameter-values', 'parameter-dimension', 'comment-none']),
    'no-common-code-list': ('how', ['bools-parameter', 'text+number-axis', 'number+text-parameter', 'bool+number-axis']),
    'ragged-list': ('how', ['parameter-zoned', 'parameter-deep', 'computation', 'calibration-measurement']),
}
VARIANTS = [(k, None) for k in sorted(CATALOGUE) if k not in PRIMARY] + \
           [(k, v) for k in sorted(PRIMARY) for v in PRIMARY[k][1]]


@st.composite
def invalidation(draw, fixed=None):
    k = fixed[0] if fixed else draw(st.sampled_from(sorted(CATALOGUE)))
    inv = {'k': k, 'sel': draw(st.integers(0, 1000))}
    inv = draw(_invalidation_params(inv))
    if fixed and fixed[1] is not None:
        inv[PRIMARY[k][0]] = fixed[1]
    return inv


@st.composite
def _invalidation_params(draw, inv):
    k = inv['k']
    if k == 'rows-unequal':
        inv['how'] = draw(st.sampled_from(['one', 'fewer', 'more']))
    elif k == 'dtype':
        inv['dt'] = draw(st.sampled_from(BAD_DTYPES))
    elif k in ('long-ident-ok', 'long-ident-bad'):
        inv['pos'] = draw(st.sampled_from(['name', 'set', 'units', 'ident-value', 'channel-name', 'origin-name']))
        inv['n'] = draw(st.sampled_from([128, 129, 200, 255])) if k == 'long-ident-ok' else \
            draw(st.sampled_from([256, 257, 300, 16384]))
    elif k == 'non-ascii':
        inv['pos'] = draw(st.sampled_from(['name', 'set', 'sul-id', 'hdr-id', 'units', 'text-value', 'ident-value',
                                           'nf-str', 'channel-name']))
        inv['text'] = draw(st.sampled_from(NONASCII))
    elif k == 'int-range':
        inv['attr'], inv['v'] = draw(st.sampled_from([('descent_number', 65536), ('descent_number', -1),
                                                      ('run_number', 70000), ('file_number', 2 ** 30),
                                                      ('file_number', -1), ('name_space_version', 2 ** 31),
                                                      ('producer_code', -5)]))
    elif k == 'nonfinite-int':
        inv['attr'] = draw(st.sampled_from(['descent_number', 'run_number', 'file_number']))
        inv['v'] = draw(st.sampled_from(['inf', '-inf', 'nan', '1.5']))
    elif k == 'window':
        inv['how'] = draw(st.sampled_from(['to>rows', 'from<0', 'inverted', 'from>=rows', 'to<0', 'equal']))
    elif k == 'ics':
        inv['v'] = draw(st.sampled_from([0, -1, -7, 2.5]))
    elif k == 'ocs':
        inv['how'] = draw(st.sampled_from(['below-vrl', 'fraction', 'negative', 'string']))
    elif k == 'sul-seq':
        inv['v'] = draw(st.sampled_from([-1, -12, 10000, 123456]))
    elif k == 'dtime-range':
        inv['year'] = draw(st.sampled_from([1850, 1899, 2156, 2300]))
    elif k == 'no-common-code-list':
        inv['how'] = draw(st.sampled_from(PRIMARY['no-common-code-list'][1]))
    elif k == 'ragged-list':
        inv['how'] = draw(st.sampled_from(PRIMARY['ragged-list'][1]))
    elif k == 'int-range-list':
        inv['n'] = draw(st.sampled_from([1, 2, 7, 8, 9, 20]))
        inv['where'] = draw(st.sampled_from(['axis-coordinates', 'parameter-values', 'parameter-dimension',
                                             'comment-none']))
        inv['bad'] = draw(st.sampled_from([2 ** 31, 3_000_000_000, -2 ** 31 - 1, 2 ** 40]))
        inv['at'] = draw(st.integers(0, 19))
    elif k == 'sul-field-set-later':
        inv['field'], inv['v'] = draw(st.sampled_from([('set_identifier', 'X' * 61), ('set_identifier', 'Y' * 200),
                                                      ('sequence_number', 10000), ('sequence_number', 123456),
                                                      ('set_identifier', 'naïve')]))
    elif k == 'vrl-invalid':
        inv['v'] = draw(st.sampled_from([19, 18, 0, -20, 21, 8191, 16385, 16386, 70000]))
    elif k == 'hdr-seq':
        inv['v'] = draw(st.sampled_from([0, -1, 10 ** 10, 10 ** 12]))
    elif k == 'hdr-ident':
        inv['v'] = draw(st.sampled_from(['', 'AB', '00']))
    elif k == 'uvari-nonint':
        inv['attr'], inv['v'] = draw(st.sampled_from([('file_number', 2.5), ('name_space_version', 0.1),
                                                      ('descent_number', 7.25)]))
    return inv


@st.composite
def strategy(draw, fixed=None):
    prof = Profile(vrl=[256, 8192], max_frames=2, max_channels=3, max_rows=8, max_width=3,
                   meta_kinds=('comment', 'zone', 'equipment', 'parameter', 'long_name', 'tool'), max_meta=4,
                   attr_routes=('kw', 'dict', 'later'), noformat=1, nf_payload_max=30, units=True)
    spec = draw(file_specs(prof))
    n = draw(st.sampled_from([1, 1, 1, 2, 3]))
    spec['inv'] = [draw(invalidation(fixed))] + [draw(invalidation()) for _ in range(n - 1)]
    return spec


def _txt(n):
    return ''.join(chr(65 + i % 26) for i in range(n))


def apply(spec, inv):
    """Apply one invalidation to the JSON specification (in place)."""
    lf = spec['lfs'][0]
    ops = lf['ops']
    k = inv['k']
    sel = inv['sel']
    chans = [j for j, op in enumerate(ops) if op['t'] == 'channel' and op.get('data')]
    frames = [j for j, op in enumerate(ops) if op['t'] == 'frame']
    origins = [j for j, op in enumerate(ops) if op['t'] == 'origin']
    w = spec.setdefault('write', {})
    if k == 'rows-unequal':
        f = ops[frames[sel % len(frames)]]
        refs = [r['$ref'] for r in f['attrs']['channels']['v']]
        if len(refs) < 2:
            # give the frame a second channel with another row count
            n = ops[refs[0]]['data']['shape'][0]
            m = {'one': 1, 'fewer': max(1, n - 1), 'more': n + 2}[inv['how']]
            if m == n:
                m = n + 1
            ops.insert(frames[sel % len(frames)], None)     # placeholder, fixed below
            raise _Restructure('second-channel', frames[sel % len(frames)], m)
        j = refs[1 + sel % (len(refs) - 1)] if sel % 2 else refs[0]
        a = ops[j]['data']
        n = a['shape'][0]
        m = {'one': 1, 'fewer': max(1, n - 1), 'more': n + 2}[inv['how']]
        if m == n:
            m = n + 1
        a['shape'] = [m] + a['shape'][1:]
        a.pop('hex', None)
        a.pop('special', None)
        a.setdefault('pat', [3, 1])
    elif k == 'dtype':
        a = ops[chans[sel % len(chans)]]['data']
        a['dt'] = inv['dt']
        a.pop('hex', None)
        a.pop('special', None)
        a.setdefault('pat', [3, 1])
        ops[chans[sel % len(chans)]].pop('cast', None)
    elif k == '3d':
        a = ops[chans[sel % len(chans)]]['data']
        a['shape'] = [a['shape'][0], 2, 2]
        a.pop('hex', None)
        a.pop('special', None)
        a.setdefault('pat', [3, 1])
    elif k == 'missing-data':
        ops[chans[sel % len(chans)]]['data'] = None
    elif k in ('long-ident-ok', 'long-ident-bad', 'non-ascii'):
        text = _txt(inv['n']) if 'n' in inv else inv['text']
        pos = inv['pos']
        if pos == 'name':
            ops.append({'t': 'comment', 'name': text, 'attrs': {'text': {'v': ['x'], 'r': 'kw'}}})
        elif pos == 'set':
            ops.append({'t': 'comment', 'name': 'CMT', 'set': text, 'attrs': {'text': {'v': ['x'], 'r': 'kw'}}})
        elif pos == 'units':
            ops.append({'t': 'equipment', 'name': 'EQU', 'attrs': {'height': {'v': 1.5, 'u': text, 'r': 'dict'}}})
        elif pos == 'ident-value':
            ops.append({'t': 'equipment', 'name': 'EQI', 'attrs': {'serial_number': {'v': text, 'r': 'kw'}}})
        elif pos == 'text-value':
            ops.append({'t': 'comment', 'name': 'CMV', 'attrs': {'text': {'v': ['ok', text], 'r': 'kw'}}})
        elif pos == 'channel-name':
            ops[chans[sel % len(chans)]]['name'] = text
        elif pos == 'origin-name':
            ops[origins[0]]['name'] = text
        elif pos == 'sul-id':
            spec['sul']['id'] = text
        elif pos == 'hdr-id':
            lf.setdefault('hdr', {})['id'] = text
        elif pos == 'nf-str':
            ops.append({'t': 'no_format', 'name': 'NFX', 'attrs': {}})
            ops.append({'t': 'nfdata', 'target': {'$ref': len(ops) - 1}, 'payload': {'k': 'text', 'text': text}})
    elif k in ('int-range', 'nonfinite-int'):
        v = inv['v']
        if isinstance(v, str):
            v = float(v)
        ops[origins[0]]['attrs'][inv['attr']] = {'v': v, 'r': 'kw'}
    elif k == 'copy>255':
        for _ in range(257):
            ops.append({'t': 'comment', 'name': 'SAME', 'attrs': {}})
    elif k == 'no-origin':
        lf['ops'] = [op for op in ops if op['t'] != 'origin']
        _strip_orefs(lf)
    elif k == 'no-channel':
        lf['ops'] = [op for op in ops if op['t'] in ('origin', 'comment', 'equipment', 'zone')]
        _strip_refs_all(lf)
    elif k == 'no-frame':
        lf['ops'] = [op for op in ops if op['t'] in ('origin', 'channel', 'comment', 'equipment')]
        _strip_refs_all(lf)
    elif k == 'frame-no-channels':
        ops[frames[sel % len(frames)]]['attrs']['channels'] = {'v': [], 'r': 'kw'}
    elif k == 'window':
        rows = min(ops[j]['data']['shape'][0] for j in chans)
        how = inv['how']
        if how == 'to>rows':
            w['to'] = rows + 1 + sel % 3
        elif how == 'from<0':
            w['from'] = -1 - sel % 3
        elif how == 'inverted':
            w['from'], w['to'] = rows, max(0, rows - 1)
        elif how == 'from>=rows':
            w['from'] = rows + sel % 2
        elif how == 'to<0':
            w['to'] = -1
        elif how == 'equal':
            w['from'], w['to'] = rows // 2, rows // 2
            if w['from'] == 0:
                w['from'] = w['to'] = 1 if rows > 1 else 0
                if rows == 1:
                    w['to'] = 0
                    w['from'] = 0
                    w['zero'] = True
    elif k == 'zero-rows':
        f = ops[frames[sel % len(frames)]]
        for r in f['attrs']['channels']['v']:
            a = ops[r['$ref']]['data']
            a['shape'] = [0] + a['shape'][1:]
            a.pop('hex', None)
            a.pop('special', None)
            a.setdefault('pat', [3, 1])
    elif k == 'ragged-list':
        how = inv.get('how') or 'parameter-zoned'
        if how in ('parameter-zoned', 'parameter-deep', 'computation'):
            ops.append({'t': 'zone', 'name': 'RZ1', 'attrs': {}})
            ops.append({'t': 'zone', 'name': 'RZ2', 'attrs': {}})
            zr = [{'$ref': len(ops) - 2}, {'$ref': len(ops) - 1}]
            v = [[1, 2], [3]] if how != 'parameter-deep' else [[1, [2, 3]], [4, 5]]
            ops.append({'t': 'computation' if how == 'computation' else 'parameter', 'name': 'RAGGED',
                        'attrs': {'zones': {'v': zr, 'r': 'kw'}, 'values': {'v': v, 'r': 'kw'}}})
        else:
            ops.append({'t': 'calibration_measurement', 'name': 'RAGGED',
                        'attrs': {'maximum_deviation': {'v': [[1.5, 2.5], [3.5]], 'r': 'kw'}}})
        ops.append({'t': 'comment', 'name': 'AFTER-RAGGED', 'attrs': {'text': {'v': ['after'], 'r': 'kw'}}})
    elif k == 'no-common-code-list':
        how = inv.get('how') or 'bools-parameter'
        v = {'bools-parameter': [True, False], 'text+number-axis': ['TOP', 2.5, 'BOTTOM'],
             'number+text-parameter': [1, 'two'], 'bool+number-axis': [True, 2.5]}[how]
        if how.endswith('axis'):
            ops.append({'t': 'axis', 'name': 'AX-MIXED', 'attrs': {'coordinates': {'v': v, 'r': 'kw'}}})
        else:
            ops.append({'t': 'parameter', 'name': 'PAR-MIXED', 'attrs': {'values': {'v': v, 'r': 'kw'}}})
        ops.append({'t': 'comment', 'name': 'AFTER-MIXED', 'attrs': {'text': {'v': ['after'], 'r': 'kw'}}})
    elif k == 'empty-list':
        ops.append({'t': 'comment', 'name': 'EMPTY', 'attrs': {'text': {'v': [], 'r': 'kw'}}})
        ops.append({'t': 'comment', 'name': 'AFTER', 'attrs': {'text': {'v': ['after'], 'r': 'kw'}}})
    elif k == 'ics':
        w['ics'] = inv['v']
    elif k == 'ocs':
        vrl = spec['sul']['vrl']
        w['ocs'] = {'below-vrl': vrl - 2, 'fraction': vrl + 0.5, 'negative': -vrl, 'string': str(vrl)}[inv['how']]
    elif k == 'sul-seq':
        spec['sul']['seq'] = inv['v']
    elif k == 'sul-id-long':
        spec['sul']['id'] = _txt(61 + sel % 5)
    elif k == 'dtime-range':
        ops[origins[0]]['attrs']['creation_time'] = {'v': {'$dt': f"{inv['year']}-06-15T12:00:00", 'tz': 0}, 'r': 'kw'}
    elif k == 'int-range-list':
        vals = list(range(inv['n']))
        vals[inv['at'] % inv['n']] = inv['bad']
        if inv['where'] == 'axis-coordinates':
            ops.append({'t': 'axis', 'name': 'AX-BIG', 'attrs': {'coordinates': {'v': vals, 'r': 'kw'}}})
        elif inv['where'] == 'parameter-values':
            ops.append({'t': 'zone', 'name': 'ZB', 'attrs': {}})
            ops.append({'t': 'parameter', 'name': 'P-BIG', 'attrs': {
                'zones': {'v': [{'$ref': len(ops) - 1}], 'r': 'kw'}, 'values': {'v': [vals], 'r': 'kw'}}})
        else:
            dims = [d % 5 + 1 for d in range(inv['n'])]
            dims[inv['at'] % inv['n']] = 2 ** 30 + abs(inv['bad']) % 1000
            ops.append({'t': 'parameter', 'name': 'P-DIM', 'attrs': {'dimension': {'v': dims, 'r': 'kw'}}})
    elif k == 'dup-channel-name-in-frame':
        f = ops[frames[sel % len(frames)]]
        refs = [r['$ref'] for r in f['attrs']['channels']['v']]
        src = ops[refs[0]]
        new_op = {'t': 'channel', 'name': src['name'], 'data': dict(src['data']), 'attrs': {}}
        if src.get('set') is not None:
            new_op['set'] = src['set']
        raise _Restructure('dup-channel', frames[sel % len(frames)], new_op)
    elif k == 'vrl-invalid':
        spec['sul']['vrl'] = inv['v']
    elif k == 'sul-field-set-later':
        spec.setdefault('post', []).append(['sul', inv['field'], inv['v']])
    elif k == 'hdr-seq':
        lf.setdefault('hdr', {})['seq'] = inv['v']
    elif k == 'hdr-ident':
        lf.setdefault('hdr', {})['ident'] = inv['v']
    elif k == 'uvari-nonint':
        ops[origins[0]]['attrs'][inv['attr']] = {'v': inv['v'], 'r': 'kw'}
    elif k == 'hdr-id-long':
        lf.setdefault('hdr', {})['id'] = _txt(66 + sel % 5)


def rows_really_unequal(spec):
    ops = spec['lfs'][0]['ops']
    for op in ops:
        if op is None or op['t'] != 'frame':
            continue
        rows = set()
        for r in op['attrs']['channels']['v']:
            d = ops[r['$ref']].get('data')
            if d is not None:
                rows.add(d['shape'][0])
        if len(rows) > 1:
            return True
    return False


class _Restructure(Exception):
    pass


def _strip_orefs(lf):
    for op in lf['ops']:
        op.pop('oref', None)


def _strip_refs_all(lf):
    """After dropping ops, references are stale: keep only self-contained ops."""
    keep = []
    for op in lf['ops']:
        if "'$ref'" in str(op) or "'$origin'" in str(op):
            continue
        keep.append(op)
    lf['ops'] = keep


def add_second_channel(spec, frame_index, rows, new_op=None):
    lf = spec['lfs'][0]
    ops = [op for op in lf['ops'] if op is not None]
    # rebuild with a new channel appended at the end and referenced by the frame; indices of earlier ops unchanged
    lf['ops'] = ops
    fidx = frame_index
    new = new_op or {'t': 'channel', 'name': 'ODD-ROWS', 'data': {'dt': '<f4', 'shape': [rows], 'pat': [5, 2]}, 'attrs': {}}
    # the channel must exist before the frame: move the frame to the end
    f = ops.pop(fidx)

    def shift(v):
        if isinstance(v, dict):
            if '$ref' in v:
                return {'$ref': v['$ref'] - 1 if v['$ref'] > fidx else v['$ref']} if v['$ref'] != fidx else {'$ref': len(ops) + 1}
            if '$origin' in v:
                return {'$origin': v['$origin'] - 1 if v['$origin'] > fidx else v['$origin']}
            return {k: shift(x) for k, x in v.items()}
        if isinstance(v, list):
            return [shift(x) for x in v]
        return v
    ops[:] = [shift(op) for op in ops]
    f = shift(f)
    ops.append(new)
    f['attrs']['channels']['v'].append({'$ref': len(ops) - 1})
    ops.append(f)


class C12(Property):
    id = 'C12'
    number = 12
    technique = ("Hypothesis-generated valid specifications combined with 1-3 invalidations from a catalogue of 32 kinds (69 kind x position variants, each with its own search so that none depends on luck); "
                 "oracle: the outcome is an exception, or the file strictly decodes and matches the specification; for "
                 "inputs without a faithful representation a normal return is itself the violation")
    rule = ("cases: valid base specification (frames, metadata, no-format data) + invalidations drawn from: unequal row "
            "counts, unsupported dtypes, 3-D data, missing data, IDENT text of 128..255 and >= 256 characters in six "
            "positions, non-ASCII text in nine positions, integers outside their code, non-finite numbers on integer "
            "attributes, > 255 same-named objects, no origin / channel / frame, frame without channels, out-of-range / "
            "inverted / empty windows, zero rows, empty value lists, bad chunk sizes, bad label / header fields; every "
            "case contains >= 1 invalidation, so every executed case is non-trivial; distinct by case digest")
    assumptions = ("'raised' means any Exception escaping the public call",
                   "kinds marked 'either' (IDENT of 128..255 chars, empty value list) may be rejected or written faithfully")

    def searches(self, ctx):
        n = 4000 if ctx.tier == 'quick' else 50000
        from vf.core import stratified
        return stratified('inv', lambda kv: strategy(kv), VARIANTS, n, ctx)

    def run(self, case, ctx):
        dw.check_import_location()
        spec = copy.deepcopy(case)
        invs = spec.pop('inv')
        kinds = []
        # a later invalidation writing the same single slot (origin name, label identifier, one origin attribute ...)
        # overwrites an earlier one: only the last of each slot is in effect
        slots = {}
        for n, inv in enumerate(invs):
            slot = None
            if inv.get('pos') in ('origin-name', 'sul-id', 'hdr-id', 'channel-name'):
                slot = inv['pos']
            elif inv['k'] in ('int-range', 'nonfinite-int', 'uvari-nonint'):
                slot = 'origin-attr:' + inv['attr']
            elif inv['k'] == 'dtime-range':
                slot = 'origin-attr:creation_time'
            elif inv['k'] == 'vrl-invalid':
                slot = 'vrl'
            elif inv['k'] == 'hdr-seq':
                slot = 'hdr-seq'
            elif inv['k'] == 'hdr-ident':
                slot = 'hdr-ident'
            elif inv['k'] in ('sul-seq', 'sul-id-long'):
                slot = 'sul-seq' if inv['k'] == 'sul-seq' else 'sul-id'
            elif inv['k'] == 'hdr-id-long':
                slot = 'hdr-id'
            if slot:
                slots[slot] = n
        invs = [inv for n, inv in enumerate(invs)
                if not ((inv.get('pos') in ('origin-name', 'sul-id', 'hdr-id', 'channel-name') and slots[inv['pos']] != n)
                        or (inv['k'] in ('int-range', 'nonfinite-int', 'uvari-nonint')
                            and slots['origin-attr:' + inv['attr']] != n)
                        or (inv['k'] == 'dtime-range' and slots['origin-attr:creation_time'] != n)
                        or (inv['k'] in ('vrl-invalid', 'hdr-seq', 'hdr-ident')
                            and slots[{'vrl-invalid': 'vrl'}.get(inv['k'], inv['k'])] != n)
                        or (inv['k'] == 'sul-seq' and slots['sul-seq'] != n)
                        or (inv['k'] == 'sul-id-long' and slots['sul-id'] != n)
                        or (inv['k'] == 'hdr-id-long' and slots['hdr-id'] != n))]
        for inv in invs:
            try:
                apply(spec, inv)
            except _Restructure as rs:
                what, fidx, arg = rs.args
                if what == 'dup-channel':
                    add_second_channel(spec, fidx, None, new_op=arg)
                else:
                    add_second_channel(spec, fidx, arg)
            except (IndexError, ZeroDivisionError, KeyError, ValueError, TypeError, AttributeError):
                continue       # an earlier invalidation removed what this one needs
            kinds.append(inv['k'] + (':' + str(inv.get('pos') or inv.get('how') or inv.get('where'))
                                     if any(x in inv for x in ('pos', 'how', 'where')) else ''))
        labels = ['inv:' + k.split(':')[0] for k in kinds] + ['var:' + k for k in kinds if ':' in k]
        if not kinds:
            return Result([], ['no-invalidation-applied'], False, 'skipped')
        if any(k.startswith('rows-unequal') for k in kinds) and not rows_really_unequal(spec):
            # a second row-count invalidation on the same frame can restore equality: then nothing is demanded for it
            kinds = [k for k in kinds if not k.startswith('rows-unequal')]
            labels.append('rows-unequal-undone')
            if not kinds:
                return Result([], labels, False, 'skipped')
        must = [k for k in kinds if CATALOGUE[k.split(':')[0]] == MUST_RAISE]
        path = ctx.path()
        r = self.build_and_write(spec, path, ctx)
        if r['outcome'] != 'written':
            for k in kinds:
                labels.append('raised|' + k.split(':')[0])
            return Result([], labels, True, 'raised')
        for k in kinds:
            labels.append('written|' + k.split(':')[0])
        viol = []
        for k in must:
            viol.append(Violation(f"accepted-unrepresentable/{k}", f"write() returned normally although the input "
                                                                   f"contains {k}; invalidations {invs}"[:400]))
        if not must:
            # representable fringe: must decode strictly and match
            try:
                dec = read_file(r['buf'])
            except FormatError as exc:
                return Result([Violation(f"written-undecodable/{'+'.join(sorted(kinds))}/{exc.kind}", str(exc))],
                              labels, True, 'written')
            exp = Expectation(spec)
            for i, dlf in enumerate(dec.logical_files):
                opmap, probs = compare.map_objects(dlf, exp, i)
                probs += compare.check_metadata(dlf, exp, i, opmap)
                fp, _ = compare.check_frames(dlf, exp, i, opmap)
                probs += fp
                for kk, wh, d in probs:
                    if kk.startswith('excluded-'):
                        continue
                    viol.append(Violation(f"written-unfaithful/{'+'.join(sorted(kinds))}/{kk}", d))
        else:
            # even when the acceptance itself is the violation, say whether the file is at least well-formed
            try:
                read_file(r['buf'])
            except FormatError as exc:
                viol = [Violation(v.sig + '/file-undecodable', v.detail + f" [{exc.kind}]") for v in viol]
        return Result(viol, labels, True, 'written')

    @staticmethod
    def build_and_write(spec, path, ctx):
        # like B.build_and_write, plus the 'text' payload kind (non-ASCII str) that the JSON hex form cannot carry
        lf = spec['lfs'][0]
        texts = {}
        for j, op in enumerate(lf['ops']):
            if op['t'] == 'nfdata' and op['payload'].get('k') == 'text':
                texts[j] = op['payload']['text']
                op['payload'] = {'k': 'str', 'hex': ''}
        post = spec.pop('post', [])
        if not texts and not post:
            return B.build_and_write(spec, path, ctx.scratch)
        try:
            b = B.build(spec, ctx.scratch)
            for j, t in texts.items():
                b.items[(0, j)].data = t
            for what, field, value in post:
                # public attributes of the storage unit label, changed after the label was constructed
                setattr(b.df.storage_unit_label, field, value)
            kw = B.write_kwargs(spec)
            b.df.write(path, **kw)
        except Exception as exc:
            return {'outcome': 'raised', 'stage': 'build/write', 'exc': getattr(exc, 'exc', exc), 'buf': None}
        with open(path, 'rb') as f:
            return {'outcome': 'written', 'stage': 'done', 'exc': None, 'buf': f.read()}

    def self_check(self, merged, tier):
        missing = [k for k in CATALOGUE if not merged['labels'].get('inv:' + k)]
        missing += [f"{k}:{v}" for k, v in VARIANTS if v and not merged['labels'].get(f"var:{k}:{v}")]
        if missing:
            return [f"invalidation kinds / variants never exercised: {missing}"]
        return []


PROP = C12()
