"""Common driver: write a spec, strictly decode the file, hand both to a property-specific judge."""
from vf import dw
from vf.core import Result, Violation
from vf.rp66 import FormatError, read_file
from vf.spec import build as B
from vf.spec.expect import Expectation
from vf.props.e2e import write_spec, outcome_label, spec_summary


def write_and_decode(spec, ctx, tap=False):
    """Returns (r, decoded|None, FormatError|None)."""
    r = write_spec(spec, ctx, tap=tap)
    if r['outcome'] != 'written':
        return r, None, None
    try:
        return r, read_file(r['buf']), None
    except FormatError as exc:
        return r, None, exc


def fmt_violation(exc, prefix='undecodable'):
    return Violation(f"{prefix}/{exc.kind}", f"{exc.detail} @ {exc.offset}")
