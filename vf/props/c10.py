"""C10 - Chunk sizes are invisible; the file on disk only ever grows by whole records."""
import os

from hypothesis import strategies as st

from vf import dw
from vf.core import Property, Result, Violation
from vf.rp66 import FormatError, parse_physical
from vf.spec import build as B
from vf.spec.strategies import Profile, file_specs, min_rows
from vf.props.e2e import outcome_label, spec_summary


@st.composite
def strategy(draw):
    if draw(st.integers(0, 3)) == 0:
        # structured array whose dtype coincides with the frame's (direct-slice path of the numpy wrapper) + window
        prof = Profile(vrl='mixed', max_frames=1, max_channels=3, max_rows=40, max_width=4, casts=False,
                       byte_orders=('<',), layouts=('C',), units=False, sources=('struct',), windows=True,
                       upper_names=True)
    else:
        prof = Profile(vrl='mixed', max_frames=2, max_channels=3, max_rows=40, max_width=6,
                       meta_kinds=('comment', 'zone', 'parameter', 'equipment'), max_meta=3, long_text=2000,
                       noformat=1, nf_payload_max=300, units=False, sources=('inline', 'dict', 'struct', 'hdf5'),
                       windows=True, upper_names=True)
    spec = draw(file_specs(prof))
    rows = min(min_rows(lf) for lf in spec['lfs'])
    w_ = spec.get('write') or {}
    rows = (w_.get('to') or rows) - (w_.get('from') or 0)      # rows actually written
    vrl = spec['sul']['vrl']
    mode = draw(st.sampled_from(['none', 'one', 'divisor', 'non-divisor', 'non-divisor', 'non-divisor', 'rows', 'beyond']))
    ics = None
    if mode == 'one':
        ics = 1
    elif mode == 'divisor':
        ics = draw(st.sampled_from([d for d in range(1, rows + 1) if rows % d == 0]))
    elif mode == 'non-divisor':
        nd = [d for d in range(2, rows) if rows % d]
        ics = draw(st.sampled_from(nd)) if nd else 1
    elif mode == 'rows':
        ics = rows
    elif mode == 'beyond':
        ics = rows + draw(st.integers(1, 7))
    m = draw(st.sampled_from([0, 0, 1, 1, 2, 3, 4, 5, 5, 6, 7]))
    ocs = {'abs': vrl}
    if m == 1:
        ocs = {'abs': vrl + draw(st.integers(1, 40))}
    elif m == 2:
        ocs = {'abs': draw(st.integers(vrl, 4 * vrl + 100))}
    elif m == 3:
        ocs = {'rel': 'final-80', 'd': draw(st.integers(-2, 2))}
    elif m == 4:
        ocs = {'rel': 'final', 'd': draw(st.integers(-2, 2))}
    elif m == 5:
        ocs = {'rel': 'half', 'd': draw(st.integers(-3, 3))}
    elif m == 6:
        ocs = {'rel': 'final', 'd': draw(st.integers(100, 5000))}
    elif m == 7:
        ocs = {'abs': vrl * draw(st.integers(1, 3)), 'float': True}
    if draw(st.booleans()) and 'float' not in ocs:
        ocs['float'] = draw(st.booleans())
    prior = draw(st.sampled_from(['none', 'empty', 'short', 'long']))
    spec['variant'] = {'ics': ics, 'ocs': ocs, 'prior': prior}
    return spec


class C10(Property):
    id = 'C10'
    number = 10
    technique = ("differential testing over configurations: the same Hypothesis-generated specification is written with "
                 "a reference configuration and with drawn input/output chunk sizes over drawn prior file content; the "
                 "guarded flush-tap exposes the on-disk state at every physical write (prefix / record-boundary oracle)")
    rule = ("cases: specification x input_chunk_size in {None, 1, divisor, non-divisor, rows, rows+k} x "
            "output_chunk_size in {vrl, vrl+k, arbitrary, final-80+-2, final+-2, half, larger; int or integral float} x "
            "prior content {none, empty, shorter, longer junk}; plus one write with the default 2^32 buffer per run; plus frames of 300 / 700 / 1100 / 2500 rows through each of the four data routes with input chunk sizes 7..257 (and 1000, 1023 beyond 1024 rows); "
            "non-trivial = >= 3 flushes and an input remainder chunk")
    assumptions = ("crash points are the writer's own flush boundaries (what the process has handed to the OS); torn OS "
                   "writes and fsync ordering are not observable in-process",)

    def enumerate_default(self, ctx):
        if ctx.shard == 0:
            yield {'kind': 'spec', 'default_ocs': True, 'sul': {'vrl': 8192}, 'write': {},
                   'lfs': [{'hdr': {}, 'ops': [
                       {'t': 'origin', 'name': 'O', 'attrs': {'file_set_number': {'v': 7, 'r': 'kw'},
                                                              'creation_time': {'v': {'$dt': '2010-01-01T00:00:00',
                                                                                      'tz': 0}, 'r': 'kw'}}},
                       {'t': 'channel', 'name': 'C', 'data': {'dt': '<f4', 'shape': [50, 3], 'pat': [3, 1]}, 'attrs': {}},
                       {'t': 'frame', 'name': 'F', 'attrs': {'channels': {'v': [{'$ref': 1}], 'r': 'kw'}}}]}],
                   'variant': {'ics': 7, 'ocs': {'default': True}, 'prior': 'long'}}

    def enumerate(self, ctx):
        yield from self.enumerate_default(ctx)
        # frames of hundreds of rows through every data route, with input chunk sizes around and across 2^k boundaries
        # (read-ahead / block caches of a data source are invisible with a few dozen rows)
        k = 0
        rows_list = (300, 700, 1100, 2500) if ctx.tier == 'quick' else (257, 300, 512, 700, 1030, 1100, 2049, 2500, 4100)
        for rows in rows_list:
            for src in ('inline', 'dict', 'struct', 'hdf5'):
                for ics in (7, 50, 100, 250, 255, 256, 257) + ((1000, 1023) if rows > 1024 else ()):
                    k += 1
                    if k % ctx.nshards != ctx.shard:
                        continue
                    w = {'source': src}
                    if (k // 3) % 2:
                        w.update({'from': 3, 'to': rows - 20})
                    yield {'kind': 'spec', 'sul': {'vrl': 8192}, 'write': w,
                           'lfs': [{'hdr': {}, 'ops': [
                               {'t': 'origin', 'name': 'O', 'attrs': {'file_set_number': {'v': 7, 'r': 'kw'},
                                                                      'creation_time': {'v': {'$dt': '2010-01-01T00:00:00',
                                                                                              'tz': 0}, 'r': 'kw'}}},
                               {'t': 'channel', 'name': 'IDX', 'data': {'dt': '<u2', 'shape': [rows], 'pat': [rows % 250 | 1, 3]},
                                'attrs': {}},
                               {'t': 'channel', 'name': 'VAL', 'data': {'dt': '<f4', 'shape': [rows, 2], 'pat': [7, 1]},
                                'attrs': {}},
                               {'t': 'frame', 'name': 'LONG', 'attrs': {'channels': {'v': [{'$ref': 1}, {'$ref': 2}],
                                                                                     'r': 'kw'}}}]}],
                           'variant': {'ics': ics, 'ocs': {'abs': 8192 * 2}, 'prior': 'none'}}

    def searches(self, ctx):
        n = 1600 if ctx.tier == 'quick' else 16000
        return [('chunking', strategy(), n // ctx.nshards)]

    def run(self, spec, ctx):
        dw.check_import_location()
        spec = dict(spec)
        var = spec.pop('variant')
        spec.pop('default_ocs', None)
        ref_spec = dict(spec)
        ref_spec['write'] = dict(spec.get('write') or {})
        ref_spec['write'].pop('ics', None)
        ref_spec['write']['ocs'] = 1 << 22
        pa = ctx.path()
        r0 = B.build_and_write(ref_spec, pa, ctx.scratch)
        labels = ['prior:' + var['prior']]
        if r0['outcome'] != 'written':
            return Result([], labels, False, 'reference-' + outcome_label(r0))
        ref = r0['buf']
        final = len(ref)
        o = var['ocs']
        if o.get('default'):
            ocs = 'default'
        elif 'abs' in o:
            ocs = o['abs']
        else:
            base = {'final-80': final - 80, 'final': final, 'half': (final - 80) // 2}[o['rel']]
            ocs = max(spec['sul']['vrl'], base + o.get('d', 0))
        if o.get('float') and ocs != 'default':
            ocs = float(ocs)
        var_spec = dict(spec)
        var_spec['write'] = dict(spec.get('write') or {})
        var_spec['write']['ics'] = var['ics']
        var_spec['write']['ocs'] = ocs if ocs != 'default' else None
        pb = os.path.join(ctx.scratch, 'c10_target.dlis')
        if os.path.exists(pb):
            os.remove(pb)
        if var['prior'] == 'empty':
            open(pb, 'wb').close()
        elif var['prior'] == 'short':
            with open(pb, 'wb') as f:
                f.write(b'JUNK' * 5)
        elif var['prior'] == 'long':
            with open(pb, 'wb') as f:
                f.write(b'\xEE' * (final + 1000))
        events = []

        def sink(filename, total):
            if os.path.abspath(str(filename)) != os.path.abspath(pb):
                return
            with open(pb, 'rb') as f:
                events.append((total, f.read()))

        try:
            b = B.build(var_spec, ctx.scratch)
            kw = B.write_kwargs(var_spec)
            if ocs == 'default':
                kw.pop('output_chunk_size', None)
            data = B.make_source(var_spec, b, ctx.scratch)
            if data is not None:
                kw['data'] = data
            with dw.flush_tap(sink):
                b.df.write(pb, **kw)
        except Exception as exc:
            tn, site = dw.exc_site(getattr(exc, 'exc', exc))
            return Result([Violation(f"variant-raised/{tn}@{site}", f"ics={var['ics']} ocs={ocs}: {exc}"[:300])],
                          labels, False, 'variant-raised')
        with open(pb, 'rb') as f:
            buf = f.read()
        os.remove(pb)
        viol = []
        ics = var['ics']
        if buf != ref:
            n = min(len(buf), len(ref))
            k = next((j for j in range(n) if buf[j] != ref[j]), n)
            tail = 'prior-content-survives' if len(buf) > len(ref) and buf[:len(ref)] == ref else 'bytes-differ'
            viol.append(Violation(f"chunk-size-visible/{tail}", f"ics={ics} ocs={ocs} prior={var['prior']}: file has "
                                                                f"{len(buf)} bytes, reference {len(ref)}; first "
                                                                f"difference at {k}"))
        if not events:
            viol.append(Violation("no-flush-observed/tap", "flush-tap reported nothing"))
        else:
            if events[-1][0] != len(buf):
                viol.append(Violation("reported-size/total", f"writer reports {events[-1][0]} bytes, file has {len(buf)}"))
            try:
                sul, vrs = parse_physical(buf)
                bounds = {80} | {vr.offset + vr.length for vr in vrs}
            except FormatError:
                bounds = None
            for k, (total, disk) in enumerate(events):
                if len(disk) != total:
                    viol.append(Violation("flush/size-mismatch", f"flush {k}: reported {total}, on disk {len(disk)}"))
                    break
                if disk != buf[:len(disk)]:
                    viol.append(Violation("flush/not-a-prefix", f"flush {k}: on-disk content of {len(disk)} bytes is not a "
                                                                f"prefix of the final file"))
                    break
                if bounds is not None and len(disk) not in bounds:
                    viol.append(Violation("flush/not-on-record-boundary", f"flush {k}: {len(disk)} bytes on disk is not "
                                                                          f"a visible-record boundary"))
                    break
        rows = min((op['data']['shape'][0] for lf in spec['lfs'] for op in lf['ops'] if op['t'] == 'channel'), default=0)
        rows = ((spec.get('write') or {}).get('to') or rows) - ((spec.get('write') or {}).get('from') or 0)
        rem = bool(ics) and rows % ics != 0
        nt = len(events) >= 3 and rem
        labels += ['flushes>=3'] if len(events) >= 3 else []
        labels += ['input-remainder'] if rem else []
        labels += ['ocs:' + ('default' if ocs == 'default' else (o.get('rel') or 'abs') + ('-float' if o.get('float') else ''))]
        return Result(viol, labels, nt, 'written',
                      sample={'vrl': spec['sul']['vrl'], 'ics': ics, 'ocs': ocs, 'prior': var['prior'],
                              'flush_sizes': [e[0] for e in events][:10], 'final': len(buf)})


PROP = C10()
