"""C06 - Primitive values are encoded exactly as their representation code prescribes."""
import math
import struct
from datetime import datetime, timedelta, timezone

from hypothesis import strategies as st

from vf import dw
from vf.core import Property, Result, Violation
from vf.rp66 import codes as RC
from vf.rp66.codes import FormatError
from vf.spec import model

INT_RANGES = {'USHORT': (0, 255), 'UNORM': (0, 65535), 'ULONG': (0, 2 ** 32 - 1), 'SSHORT': (-128, 127),
              'SNORM': (-32768, 32767), 'SLONG': (-2 ** 31, 2 ** 31 - 1), 'UVARI': (0, 2 ** 30 - 1)}


class _Item:
    """Duck-typed stand-in for an EFLR item: what write_struct_obname / _objref read."""

    def __init__(self, origin, copy, name, set_type='CHANNEL'):
        self.origin_reference = origin
        self.copy_number = copy
        self.name = name
        self.parent = type('P', (), {'set_type': set_type})()

    @property
    def obname(self):
        from dliswriter.utils.internal.struct_writer import write_struct_obname
        return write_struct_obname(self)


def pattern_text(n, a=7, b=3):
    return ''.join(chr(32 + (i * a + b) % 95) for i in range(n))


def enumerate_cases(ctx):
    idx = 0

    def mine():
        nonlocal idx
        idx += 1
        return idx % ctx.nshards == ctx.shard

    for v in list(range(-300, 70001)) + list(range(2 ** 30 - 300, 2 ** 30 + 301)):
        if mine():
            yield {'code': 'UVARI', 'v': v}
    for code, (lo, hi) in INT_RANGES.items():
        if code == 'UVARI':
            continue
        if hi - lo < 70000:
            vals = range(lo - 300, hi + 301)
        else:
            vals = list(range(lo - 300, lo + 301)) + list(range(hi - 300, hi + 301)) + list(range(-300, 301))
        for v in vals:
            if mine():
                yield {'code': code, 'v': v}
    for n in list(range(0, 301)) + [16383, 16384, 70000]:
        for code in ('IDENT', 'ASCII'):
            if n > 300 and code == 'IDENT' and n != 16383:
                continue
            if mine():
                yield {'code': code, 'text': {'n': n, 'a': n % 90 + 1, 'b': n % 7}}
    for o in (0, 1, 127, 128, 129, 16383, 16384, 16385, 2 ** 30 - 1, 2 ** 30, -1):
        for c in (0, 1, 127, 128, 255, 256, -1):
            for n in (0, 1, 5, 127, 128, 255, 256):
                if mine():
                    yield {'code': 'OBNAME', 'o': o, 'c': c, 'text': {'n': n, 'a': 11, 'b': o % 5}}
                if mine() and o in (0, 128, 16384) and c in (0, 255):
                    yield {'code': 'OBJREF', 'o': o, 'c': c, 'text': {'n': n, 'a': 5, 'b': 1},
                           'stype': {'n': (n * 3) % 300, 'a': 3, 'b': 2}}
    for v in (0, 1, True, False, 2, -1, 255, 256):
        if mine():
            yield {'code': 'STATUS', 'v': v}
    for year in (1899, 1900, 1901, 1999, 2000, 2154, 2155, 2156):
        for month, day in ((1, 1), (2, 28), (12, 31)):
            for us in (0, 1, 499, 500, 999499, 999500, 999999):
                for tz in (None, 0, 60, -720, 840):
                    if mine():
                        yield {'code': 'DTIME', 'dt': {'$dt': datetime(max(1, year), month, day, 23, 59, 59, us).isoformat(),
                                                       'tz': tz}}


def pair_cases():
    """Two values that compare (and hash) equal in Python but have different encodings, or equal encodings through
    different values: the second is encoded right after the first, WITHOUT clearing the caches in between, and judged
    like any single value."""
    out = []
    pz = struct.pack('>d', 0.0).hex()
    nz = struct.pack('>d', -0.0).hex()
    for a, b in ((pz, nz), (nz, pz)):
        for code in ('FDOUBL', 'FSINGL'):
            out.append({'kind': 'pair', 'code': code, 'first': {'code': code, 'bits': a}, 'second': {'code': code, 'bits': b}})
    for code in ('UVARI', 'USHORT', 'SLONG', 'ULONG', 'UNORM'):
        out.append({'kind': 'pair', 'code': code, 'first': {'code': 'STATUS', 'v': True}, 'second': {'code': code, 'v': 1}})
        out.append({'kind': 'pair', 'code': code, 'first': {'code': code, 'v': 1}, 'second': {'code': 'STATUS', 'v': True}})
    out.append({'kind': 'pair', 'code': 'ASCII', 'first': {'code': 'IDENT', 'text': {'n': 130, 'a': 3, 'b': 1}},
                'second': {'code': 'ASCII', 'text': {'n': 130, 'a': 3, 'b': 1}}})
    out.append({'kind': 'pair', 'code': 'IDENT', 'first': {'code': 'ASCII', 'text': {'n': 130, 'a': 3, 'b': 1}},
                'second': {'code': 'IDENT', 'text': {'n': 130, 'a': 3, 'b': 1}}})
    if model.zones_available():
        from vf.spec.strategies import ZONE_TIMES
        for z, iso in ZONE_TIMES[:3]:
            for f in (0, 1):
                out.append({'kind': 'pair', 'code': 'DTIME',
                            'first': {'code': 'DTIME', 'dt': {'$dt': iso, 'zone': z, 'fold': f}},
                            'second': {'code': 'DTIME', 'dt': {'$dt': iso, 'zone': z, 'fold': 1 - f}}})
    # the same instant given in two fixed offsets (equal and equal hash): both must encode that instant
    out.append({'kind': 'pair', 'code': 'DTIME', 'first': {'code': 'DTIME', 'dt': {'$dt': '2010-05-05T12:00:00', 'tz': 0}},
                'second': {'code': 'DTIME', 'dt': {'$dt': '2010-05-05T17:30:00', 'tz': 330}}})
    return out


@st.composite
def prim_cases(draw):
    kind = draw(st.sampled_from(['int', 'int', 'float', 'float', 'ident', 'ascii', 'ascii-big', 'nonascii', 'dtime',
                                 'obname', 'objref', 'status', 'pair']))
    if kind == 'int':
        code = draw(st.sampled_from(list(INT_RANGES)))
        lo, hi = INT_RANGES[code]
        v = draw(st.one_of(st.integers(lo, hi), st.integers(lo - 1000, hi + 1000),
                           st.sampled_from([lo - 1, lo, hi, hi + 1, 127, 128, 16383, 16384])))
        return {'code': code, 'v': v}
    if kind == 'float':
        code = draw(st.sampled_from(['FDOUBL', 'FSINGL']))
        bits = draw(st.integers(0, 2 ** 64 - 1))
        v = struct.unpack('>d', struct.pack('>Q', bits))[0]
        if draw(st.booleans()):
            v = draw(st.floats(allow_nan=True, allow_infinity=True, width=32 if code == 'FSINGL' else 64))
        return {'code': code, 'bits': struct.pack('>d', v).hex()}
    if kind == 'ident':
        return {'code': 'IDENT', 'text': {'n': draw(st.one_of(st.integers(0, 300), st.integers(120, 135),
                                                              st.integers(250, 260))),
                                          'a': draw(st.integers(1, 94)), 'b': draw(st.integers(0, 94))}}
    if kind == 'ascii':
        return {'code': 'ASCII', 'text': {'n': draw(st.one_of(st.integers(0, 300), st.integers(120, 135),
                                                              st.integers(16380, 16390))),
                                          'a': draw(st.integers(1, 94)), 'b': draw(st.integers(0, 94))}}
    if kind == 'ascii-big':
        return {'code': 'ASCII', 'text': {'n': draw(st.integers(300, 70000)), 'a': draw(st.integers(1, 94)),
                                          'b': draw(st.integers(0, 94))}}
    if kind == 'nonascii':
        s = draw(st.text(min_size=1, max_size=12).filter(lambda t: any(ord(ch) > 127 for ch in t)))
        return {'code': draw(st.sampled_from(['IDENT', 'ASCII'])), 'raw_text': s}
    if kind == 'pair':
        return draw(st.sampled_from(pair_cases()))
    if kind == 'dtime' and draw(st.integers(0, 5)) == 0 and model.zones_available():
        from vf.spec.strategies import ZONE_TIMES
        z, iso = draw(st.sampled_from(ZONE_TIMES))
        return {'code': 'DTIME', 'dt': {'$dt': iso, 'zone': z, 'fold': draw(st.integers(0, 1))}}
    if kind == 'dtime':
        base = datetime(1899, 12, 30) + timedelta(seconds=draw(st.integers(0, 8110 * 10 ** 6)),
                                                  microseconds=draw(st.integers(0, 999999)))
        tz = draw(st.one_of(st.none(), st.integers(-14 * 60, 14 * 60)))
        c = {'code': 'DTIME', 'dt': {'$dt': base.isoformat(), 'tz': tz}}
        if tz is None:
            # a naive date-time means local time: exercise other process time zones than UTC too
            c['tz_env'] = draw(st.sampled_from(['UTC', 'Asia/Kolkata', 'America/St_Johns', 'Pacific/Chatham']))
        return c
    if kind in ('obname', 'objref'):
        c = {'code': kind.upper(),
             'o': draw(st.one_of(st.integers(0, 300), st.integers(16000, 17000), st.integers(0, 2 ** 30 - 1))),
             'c': draw(st.one_of(st.integers(0, 255), st.integers(250, 260))),
             'text': {'n': draw(st.one_of(st.integers(0, 40), st.integers(120, 135), st.integers(250, 260))),
                      'a': draw(st.integers(1, 94)), 'b': draw(st.integers(0, 94))}}
        if kind == 'objref':
            c['stype'] = {'n': draw(st.one_of(st.integers(1, 30), st.integers(120, 135), st.integers(250, 260))),
                          'a': draw(st.integers(1, 94)), 'b': draw(st.integers(0, 94))}
        return c
    return {'code': 'STATUS', 'v': draw(st.sampled_from([0, 1, True, False, 2, 3, -1, 255]))}


def text_of(t):
    return pattern_text(t['n'], t.get('a', 7), t.get('b', 3))


def near_boundary(case):
    v = case.get('v')
    if isinstance(v, int) and not isinstance(v, bool):
        for b in (0, 127, 128, 255, 256, 16383, 16384, 32767, 32768, 65535, 65536, 2 ** 30, 2 ** 31, 2 ** 32,
                  -128, -32768, -2 ** 31):
            if abs(v - b) <= 2:
                return True
    t = case.get('text')
    if t is not None:
        return t['n'] >= 128 or t['n'] in (0, 127, 126)
    return False


class C06(Property):
    id = 'C06'
    number = 6
    fuzz_targets = {'fuzz_struct': 200000}      # atheris campaign in the thorough tier (crashes are replayed through run())
    technique = ("bounded-exhaustive enumeration of the integer / length boundary domains plus Hypothesis search over "
                 "floats, text, date-times and object names, each value encoded by the real write_struct dispatch and "
                 "decoded by an independent decoder; unrepresentable values must raise")
    rule = ("cases: (code, value) pairs - UVARI -300..70000 and 2^30+-300, all values of the 1- and 2-byte integer "
            "codes +-300 beyond each edge, 4-byte codes at their edges, IDENT/ASCII lengths 0..300 (+16383, 16384, "
            "70000), OBNAME origin x copy x name-length grid, STATUS, DTIME edges; Hypothesis: float bit patterns, "
            "ASCII up to 70000 chars, date-times with any zone and microsecond, non-ASCII text, date-times in named zones inside a repeated hour (fold 0/1), pairs of equal-looking values encoded back to back; non-trivial = value "
            "within 2 of a form/range boundary, multi-byte length form, or a required rejection; distinct (code, value)")
    assumptions = ("caches of write_struct are cleared before every case, except between the two values of a 'pair' case "
                   "(equal-looking values with different encodings); longer histories are C14's business",
                   "a non-minimal but decodable UVARI form is only reported in the class histogram, not as a violation")

    def enumerate(self, ctx):
        for c in enumerate_cases(ctx):
            c['kind'] = 'prim'
            yield c
        for k, c in enumerate(pair_cases()):
            if k % ctx.nshards == ctx.shard:
                yield c

    def enumerated_exhaustive_claim(self, tier):
        return True

    def exhaustive_scope(self, tier):
        return ("UVARI -300..70000 and 2^30-300..2^30+300; USHORT/SSHORT/UNORM/SNORM every value +-300 beyond the range; "
                "ULONG/SLONG +-300 around both edges and zero; IDENT/ASCII lengths 0..300; OBNAME grid origin x copy x "
                "name length over the 1/2/4-byte and 255/256 boundaries; STATUS; DTIME year/ms/zone edges")

    def searches(self, ctx):
        n = 24000 if ctx.tier == 'quick' else 400000
        return [('primitives', prim_cases(), n // ctx.nshards)]

    def run(self, case, ctx):
        dw.check_import_location()
        if case.get('kind') == 'pair':
            self.run(dict(case['first'], kind='prim'), ctx)                 # (clears the caches first)
            res = self.run(dict(case['second'], kind='prim', keep_caches=True), ctx)
            res.labels = list(res.labels) + ['after-an-equal-looking-value']
            res.violations = [Violation(v.sig + '/after-equal-looking-value', v.detail) for v in res.violations]
            res.nontrivial = True
            return res
        from dliswriter.utils.internal.struct_writer import write_struct
        from dliswriter.utils.internal.internal_enums import RepresentationCode
        if not case.get('keep_caches'):
            dw.clear_caches()
        code = case['code']
        rc = RepresentationCode[code]
        expect_raise = False
        labels = [code]
        # build the value and the expectation
        if 'bits' in case:
            value = struct.unpack('>d', bytes.fromhex(case['bits']))[0]
            if code == 'FSINGL' and math.isfinite(value):
                try:
                    struct.pack('>f', value)
                except OverflowError:
                    expect_raise = True
        elif code in INT_RANGES:
            value = case['v']
            lo, hi = INT_RANGES[code]
            expect_raise = not lo <= value <= hi
        elif code == 'STATUS':
            value = case['v']
            expect_raise = value not in (0, 1)
        elif code in ('IDENT', 'ASCII'):
            if 'raw_text' in case:
                value = case['raw_text']
                expect_raise = True
            else:
                value = text_of(case['text'])
                expect_raise = code == 'IDENT' and len(value) > 255
        elif code == 'DTIME':
            if case.get('tz_env'):
                import os as _os, time as _time
                _os.environ['TZ'] = case['tz_env']
                _time.tzset()
            value = model.dec_datetime(case['dt'])
            utc = (value if value.tzinfo else value.astimezone()).astimezone(timezone.utc)
            expect_raise = not 1900 <= utc.year <= 2155
        elif code in ('OBNAME', 'OBJREF'):
            name = text_of(case['text'])
            stype = text_of(case['stype']) if 'stype' in case else 'CHANNEL'
            value = _Item(case['o'], case['c'], name, stype)
            expect_raise = (not 0 <= case['o'] < 2 ** 30 or not 0 <= case['c'] <= 255 or len(name) > 255
                            or len(stype) > 255)
        else:
            raise ValueError(code)
        nt = near_boundary(case) or expect_raise
        if expect_raise:
            labels.append('must-reject')
        try:
            out = write_struct(rc, value)
        except Exception as exc:
            if expect_raise:
                return Result([], labels, nt, 'rejected')
            tn, site = dw.exc_site(exc)
            return Result([Violation(f"raised-for-representable/{code}/{tn}", f"{case}: {exc}"[:300])], labels, nt,
                          'raised')
        cls = code
        t = case.get('text')
        if t is not None:
            cls += '/len128..255' if 128 <= t['n'] <= 255 else ('/len>255' if t['n'] > 255 else '/len<128')
        if expect_raise:
            return Result([Violation(f"not-rejected/{cls}", f"{str(case)[:200]} -> {bytes(out)[:16].hex()}...")],
                          labels, nt, 'encoded')
        viol = []
        try:
            dec, off = RC.decode(rc.value, bytes(out), 0)
        except FormatError as exc:
            return Result([Violation(f"undecodable/{cls}/{exc.kind}", f"{str(case)[:200]} -> {bytes(out)[:16].hex()}")],
                          labels, nt, 'encoded')
        if off != len(out):
            viol.append(Violation(f"length/{cls}", f"{str(case)[:200]}: decoder consumed {off} of {len(out)} bytes "
                                                   f"({bytes(out)[:12].hex()})"))
        ok = True
        if 'bits' in case:
            if code == 'FDOUBL':
                ok = bytes(out) == bytes.fromhex(case['bits'])
            else:
                ok = (math.isnan(dec) and math.isnan(value)) or dec == struct.unpack('>f', struct.pack('>f', value))[0]
        elif code in INT_RANGES or code == 'STATUS':
            ok = dec == value
            if code == 'UVARI' and len(out) != RC.uvari_minimal_len(value):
                labels.append('uvari-nonminimal-form')     # decodable and equal: reported in the histogram only
        elif code in ('IDENT', 'ASCII'):
            ok = dec == value
            if code == 'ASCII':
                n, o2 = RC.dec_uvari(bytes(out), 0)
                if o2 != RC.uvari_minimal_len(len(value)):
                    labels.append('uvari-nonminimal-form')
        elif code == 'DTIME':
            from vf.spec.expect import dt_instants, local_tz
            inst = RC.dtime_to_utc(dec, local_tz())
            ok = inst in dt_instants(case['dt'])
        elif code == 'OBNAME':
            ok = dec == (case['o'], case['c'], name)
        elif code == 'OBJREF':
            ok = dec == (stype, case['o'], case['c'], name)
        if not ok:
            viol.append(Violation(f"value/{cls}", f"{str(case)[:200]} decodes to {str(dec)[:80]}"))
        return Result(viol, labels, nt, 'encoded')

    def digest(self, case):
        from vf.core import case_digest
        return case_digest(case)


PROP = C06()
