"""C18 - Frames and logical files are isolated from one another."""
import copy

from hypothesis import strategies as st

from vf.core import Property, Result, Violation
from vf.spec import compare
from vf.spec.expect import Expectation
from vf.spec.strategies import Profile, file_specs
from vf.props import specrun
from vf.props.c07 import check_origins, check_identity
from vf.props.c09 import check_order
from vf.props.e2e import outcome_label

META = ('zone', 'parameter', 'equipment', 'comment', 'axis', 'tool', 'process', 'computation', 'long_name')


@st.composite
def strategy(draw):
    mode = draw(st.sampled_from(['distinct', 'shared', 'shared', 'partial', 'frames-only']))
    base = dict(vrl=[512, 8192], max_channels=3, max_rows=8, max_width=2, meta_kinds=META, max_meta=5, units=False,
                max_origins=2, origin_position=('first', 'middle', 'last'), noformat=1, nf_payload_max=16,
                hdr_variants=True, explicit_origin_refs=True)
    if mode == 'frames-only':
        prof = Profile(max_frames=4, max_lfs=1, **base)
    else:
        prof = Profile(max_frames=2, max_lfs=3, interleave=True, lf_distinct_sets=(mode == 'distinct'),
                       named_sets=(mode != 'shared'), sources=('inline', 'dict', 'struct'), **base)
    spec = draw(file_specs(prof))
    if mode == 'partial' and len(spec['lfs']) > 1:
        # some kinds share a set name across logical files, others are kept apart
        for i, lf in enumerate(spec['lfs']):
            for op in lf['ops']:
                if op['t'] in ('nfdata',):
                    continue
                # decided per object: same-named objects of one type may sit in differently named sets
                if op['t'] in ('origin', 'no_format') or draw(st.booleans()):
                    op['set'] = f"{op['t'].upper()}-LF{i}"
                else:
                    op.pop('set', None)
    if spec['write'].get('source') in ('dict', 'struct') and len(spec['lfs']) > 1:
        # a dict passed at write() serves all logical files: dataset names must be distinct across them
        for i, lf in enumerate(spec['lfs']):
            k = 0
            for op in lf['ops']:
                if op['t'] == 'channel':
                    k += 1
                    op['dsname'] = f"LF{i}-DS{k}"
    spec['mode'] = mode
    if len(spec['lfs']) > 1 and spec['write'].get('source', 'inline') == 'inline' and draw(st.integers(0, 2)) == 0:
        # every channel keeps its own array (given at add_channel), the logical files use the same channel / dataset names,
        # and write() is additionally handed a dict (holding only an unrelated entry): each logical file must still be
        # written from its own arrays
        first = [op for op in spec['lfs'][0]['ops'] if op['t'] == 'channel']
        for lf in spec['lfs'][1:]:
            used = {op['name'] for op in lf['ops'] if op['t'] == 'channel'}
            for k, op in enumerate(o for o in lf['ops'] if o['t'] == 'channel'):
                if k < len(first) and first[k]['name'] not in used:
                    used.discard(op['name'])
                    op['name'] = first[k]['name']
                    used.add(op['name'])
        spec['write']['source'] = 'mixed'
        spec['write']['opts'] = {'inline_ops': sorted({j for lf in spec['lfs'] for j, op in enumerate(lf['ops'])
                                                       if op['t'] == 'channel'}), 'extra': [0]}
        spec['own_arrays_plus_dict'] = True
    if len(spec['lfs']) > 1 and draw(st.integers(0, 5)) == 0:
        # a frame of a later logical file is handed a channel OBJECT of an earlier logical file (with or without a
        # same-named twin of its own): the reference cannot resolve inside its logical file, so write() must refuse
        cands = [(i, j, k) for i, lf in enumerate(spec['lfs']) if i > 0 for j, op in enumerate(lf['ops'])
                 if op['t'] == 'frame' and op['attrs'].get('channels', {}).get('v')
                 for k in range(len(op['attrs']['channels']['v']))]
        donors = [(i, j) for i, lf in enumerate(spec['lfs']) for j, op in enumerate(lf['ops']) if op['t'] == 'channel']
        if cands:
            i, j, k = draw(st.sampled_from(cands))
            earlier = [d for d in donors if d[0] < i]
            if earlier:
                di, dj = draw(st.sampled_from(earlier))
                spec.pop('order', None)             # creation order: logical file by logical file
                fr = spec['lfs'][i]['ops'][j]
                own = spec['lfs'][i]['ops'][fr['attrs']['channels']['v'][k]['$ref']]
                donor = spec['lfs'][di]['ops'][dj]
                twin = draw(st.booleans())
                if twin:
                    # the frame's own channel keeps existing under the donor's name (same set name as well)
                    own['name'] = donor['name']
                    if donor.get('set') is not None:
                        own['set'] = donor['set']
                    else:
                        own.pop('set', None)
                if draw(st.booleans()):
                    # the frame is created with its own channels; the list holding the foreign channel is assigned to
                    # the frame's CHANNELS attribute afterwards
                    late = list(fr['attrs']['channels']['v'])
                    late[k] = {'$ref': [di, dj]}
                    fr['attrs']['channels']['v_late'] = late
                    spec['foreign'] = ('twin' if twin else 'no-twin') + '+assigned-later'
                else:
                    fr['attrs']['channels']['v'][k] = {'$ref': [di, dj]}
                    spec['foreign'] = 'twin' if twin else 'no-twin'
                # the refusal must not depend on how the application configured logging
                spec['log'] = draw(st.sampled_from(['WARNING', 'ERROR', 'disabled', 'DEBUG']))
    return spec


def shares_sets(spec):
    seen = {}
    for i, lf in enumerate(spec['lfs']):
        for op in lf['ops']:
            if op['t'] == 'nfdata':
                continue
            key = (op['t'], op.get('set'))
            if key in seen and seen[key] != i:
                return True
            seen.setdefault(key, i)
    return False


class C18(Property):
    id = 'C18'
    number = 18
    technique = ("Hypothesis-generated multi-frame and multi-logical-file specifications with distinct, default (shared) "
                 "and partially shared set names and interleaved add_* calls; per-logical-file oracle on the decoded "
                 "file: inventory, references, origins, record order and frame rows must be exactly those of that "
                 "logical file; a set-sharing configuration may raise instead")
    rule = ("cases: 1-4 frames with independent row counts in one logical file, or 1-3 logical files x set-name "
            "assignment {distinct per file, all default, partially shared} x interleaved call order x data inline or "
            "passed at write() as dict / structured array; a frame handed a channel object of another logical file "
            "(must be refused); non-trivial = >= 2 logical files with a shared set name, or >= 2 frames with different "
            "row counts")

    def searches(self, ctx):
        n = 1600 if ctx.tier == 'quick' else 20000
        return [('isolation', strategy(), n // ctx.nshards)]

    def run(self, case, ctx):
        spec = copy.deepcopy(case)
        mode = spec.pop('mode', '?')
        shared = len(spec['lfs']) > 1 and shares_sets(spec)
        rows = {op['data']['shape'][0] for lf in spec['lfs'] for op in lf['ops'] if op['t'] == 'channel'}
        nfr = sum(1 for lf in spec['lfs'] for op in lf['ops'] if op['t'] == 'frame')
        labels = ['mode:' + mode, f"lfs:{len(spec['lfs'])}"] + (['shared-set-name'] if shared else [])
        nt = shared or (nfr >= 2 and len(rows) >= 2)
        if spec.pop('own_arrays_plus_dict', False):
            labels.append('own-arrays-plus-dict-at-write')
        foreign = spec.pop('foreign', None)
        log = spec.pop('log', 'WARNING')
        if foreign:
            import logging
            from vf.spec import build as B
            lg = logging.getLogger('dliswriter')
            old_level, old_disable = lg.level, logging.root.manager.disable
            try:
                if log == 'disabled':
                    logging.disable(logging.WARNING)
                else:
                    lg.setLevel(getattr(logging, log))
                r = B.build_and_write(spec, ctx.path('foreign.dlis'), ctx.scratch)
            finally:
                logging.disable(old_disable)
                lg.setLevel(old_level)
            labels.append('foreign-channel:' + foreign)
            labels.append('log:' + log)
            if r['outcome'] == 'written':
                return Result([Violation(f"foreign-channel-accepted/{foreign}",
                                         "a frame holding a channel object of another logical file was written")],
                              labels, True, 'written')
            return Result([], labels + ['raised'], True, outcome_label(r))
        r, dec, ferr = specrun.write_and_decode(spec, ctx)
        if r['outcome'] != 'written':
            return Result([], labels + ['raised'], nt and shared, outcome_label(r))
        tag = 'shared-set-names' if shared else 'distinct-set-names'
        if ferr is not None:
            return Result([Violation(f"undecodable/{tag}/{ferr.kind}", str(ferr))], labels, nt, 'written')
        viol = []
        if len(dec.logical_files) != len(spec['lfs']):
            viol.append(Violation(f"logical-file-count/{tag}", f"{len(dec.logical_files)} vs {len(spec['lfs'])}"))
        exp = Expectation(spec)
        for i, dlf in enumerate(dec.logical_files[:len(spec['lfs'])]):
            opmap, probs = compare.map_objects(dlf, exp, i)
            contaminated = [p for p in probs if p[0] in ('object-extra', 'set-extra', 'object-name', 'object-missing',
                                                         'set-missing', 'set-duplicate')]
            if contaminated:
                k, w, d = contaminated[0]
                viol.append(Violation(f"inventory/{tag}", f"logical file {i}: {k}: {d}"))
                continue
            probs = [p for p in compare.check_metadata(dlf, exp, i, opmap) if p[0].startswith('ref-')]
            probs += check_identity(dlf)
            probs += check_origins(dlf, exp, i, opmap)
            probs += check_order(dlf, exp, i, opmap)
            fp, _ = compare.check_frames(dlf, exp, i, opmap)
            probs += fp
            probs += compare.check_noformat(dlf, exp, i, opmap)
            for k, w, d in probs:
                viol.append(Violation(f"{k}/{tag}/{w}", f"logical file {i}: {d}"))
        return Result(viol, labels, nt, 'written',
                      sample={'mode': mode, 'lfs': [[op['t'] + ':' + str(op.get('set')) for op in lf['ops']][:10]
                                                    for lf in spec['lfs']], 'source': spec['write'].get('source')})


PROP = C18()
