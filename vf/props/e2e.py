"""End-to-end layers shared by several properties: specs through DLISFile.write, judged on the file bytes."""
from hypothesis import strategies as st

from vf import dw, synth
from vf.core import Result, Violation
from vf.rp66 import FormatError, parse_physical, reassemble
from vf.spec import build as B
from vf.spec.strategies import Profile, file_specs

ALL_META = ('long_name', 'axis', 'zone', 'equipment', 'well_reference_point', 'parameter', 'computation',
            'calibration_coefficient', 'calibration_measurement', 'calibration', 'tool', 'process', 'splice',
            'path', 'message', 'comment', 'group')


def layout_specs():
    prof = Profile(vrl='mixed', max_frames=2, max_channels=4, max_rows=12, max_width=40, meta_kinds=ALL_META,
                   max_meta=5, long_text=3000, noformat=2, nf_payload_max=600, chunks=True, sul_variants=True,
                   hdr_variants=True, attr_routes=('kw', 'dict', 'setup'), counts_over_127=True,
                   unit_enums=False, preludes=True)
    return file_specs(prof)


def tiny_specs():
    """Size-minimal valid specifications: 1-byte rows, 1-character names, empty payloads, every small vrl."""
    prof = Profile(vrl='small', max_frames=2, max_channels=2, max_rows=4, max_width=3, name_max=2, noformat=2,
                   nf_payload_max=16, index_types=False, units=False, sul_variants=True, preludes=True)
    big = Profile(vrl='mixed', max_frames=1, max_channels=2, max_rows=3, max_width=2200, name_max=100, noformat=1,
                  nf_payload_max=40000, long_text=20000, meta_kinds=('comment', 'long_name'), max_meta=2,
                  index_types=False, units=False)
    return st.one_of(file_specs(prof), file_specs(prof), file_specs(big))


def spec_summary(spec):
    return {'vrl': spec['sul'].get('vrl'), 'lfs': [[op['t'] + ':' + str(op.get('name', ''))[:12] for op in lf['ops']][:14]
                                                   for lf in spec['lfs']], 'write': spec.get('write')}


def write_spec(spec, ctx, tap=False):
    bodies = []
    if tap:
        def sink(is_eflr, type_struct, bts):
            bodies.append((bool(is_eflr), type_struct[0] if type_struct else None, bytes(bts)))
        with dw.lr_tap(sink):
            r = B.build_and_write(spec, ctx.path(), ctx.scratch, after_prelude=bodies.clear)
        # the storage unit label is not a logical record (empty type struct)
        r['tapped'] = [b for b in bodies if b[1] is not None]
    else:
        r = B.build_and_write(spec, ctx.path(), ctx.scratch)
    return r


def prelude_labels(spec):
    pre = (spec.get('write') or {}).get('prelude')
    return ['prelude:' + pre] if pre else []


def outcome_label(r):
    if r['outcome'] == 'written':
        return 'written'
    tn, site = dw.exc_site(r['exc'])
    return f"raised-{r['stage']}:{tn}@{site}"


def run_c01(spec, ctx):
    r = write_spec(spec, ctx)
    labels = ['e2e'] + prelude_labels(spec)
    if r['outcome'] != 'written':
        return Result([], labels, False, outcome_label(r))
    sul = spec['sul']
    cfg = {'id': sul['id'] if sul.get('id') is not None else 'MAIN-STORAGE-UNIT', 'seq': sul.get('seq', 1)}
    problems, vrs = synth.check_layout(r['buf'], sul.get('vrl', 8192), cfg)
    viol = [Violation(f"layout/{k}/e2e", d) for k, d in problems]
    nontriv = False
    if not spec['lfs']:
        labels.append('label-only')
        nontriv = True
        if len(r['buf']) != 80:
            viol.append(Violation("layout/label-only-file-size/e2e", f"{len(r['buf'])} bytes for a storage unit without "
                                                                     f"logical files (80 expected)"))
    if vrs:
        multi = any(s.succ for vr in vrs for s in vr.segments)
        padded = any(s.pad for vr in vrs for s in vr.segments)
        nontriv = multi or padded
        if multi:
            labels.append('multi-segment-record')
        if padded:
            labels.append('padded-segment')
    return Result(viol, labels, nontriv, 'written', sample=spec_summary(spec))


def run_c02(spec, ctx):
    r = write_spec(spec, ctx, tap=True)
    labels = ['e2e'] + prelude_labels(spec)
    if r['outcome'] != 'written':
        return Result([], labels, False, outcome_label(r))
    try:
        sul, vrs = parse_physical(r['buf'])
    except FormatError as exc:
        return Result([Violation(f"unframed/{exc.kind}", str(exc))], labels, False, 'written')
    problems, recs = synth.check_lossless(vrs, r['tapped'])
    viol = [Violation(f"lossless/{k}/e2e", d) for k, d in problems]
    multi = bool(recs) and any(len(x.segments) > 1 for x in recs)
    if multi:
        labels.append('multi-segment-record')
    return Result(viol, labels, multi, 'written', sample=spec_summary(spec))


def run_c15(spec, ctx):
    r = write_spec(spec, ctx, tap=True)
    vrl = spec['sul'].get('vrl', 8192)
    labels = ['e2e', 'vrl<32' if vrl < 32 else 'vrl>=32'] + prelude_labels(spec)
    viol = []
    lens = [len(b) for _, _, b in r.get('tapped', [])]
    nontriv = vrl < 32 or any(L < 12 or L % 2 or L > 3 * (vrl - 8) for L in lens)
    if any(L < 12 for L in lens):
        labels.append('record-body<12')
    if any(L > 3 * (vrl - 8) for L in lens):
        labels.append('record-body>3cap')
    if r['outcome'] == 'written':
        problems, vrs = synth.check_layout(r['buf'], vrl, None)
        for k, d in problems:
            viol.append(Violation(f"written-but-malformed/{k}/e2e", d))
    else:
        tn, site = dw.exc_site(r['exc'])
        viol.append(Violation(f"raised/{r['stage']}/{tn}@{site}/e2e", f"{r['exc']}"[:300]))
    return Result(viol, labels, nontriv, outcome_label(r), sample=spec_summary(spec))
