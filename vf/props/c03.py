"""C03 - Channel data round-trips bit-exactly, one numbered record per row."""
from vf.core import Property, Result, Violation
from vf.spec.strategies import Profile, file_specs
from vf.spec.expect import Expectation
from vf.spec import compare
from vf.props import specrun
from vf.props.e2e import outcome_label, spec_summary


def profile(tier):
    return Profile(vrl='mixed', max_frames=2, max_channels=5, max_rows=40, max_width=24,
                   layouts=('C', 'F', 'strided', 'neg', 'ro', 'view'), specials=True, casts=True, chunks=True,
                   sources=('inline', 'dict', 'struct', 'hdf5'),
                   units=False, preludes=True)


def nontrivial(spec):
    chans = [op for lf in spec['lfs'] for op in lf['ops'] if op['t'] == 'channel']
    frames = [op for lf in spec['lfs'] for op in lf['ops'] if op['t'] == 'frame']
    multi = any(len(f['attrs']['channels']['v']) >= 2 for f in frames)
    twod = any(len(c['data']['shape']) > 1 for c in chans)
    be = any(c['data']['dt'][0] == '>' for c in chans)
    lay = any(c['data'].get('layout', 'C') != 'C' for c in chans)
    spec_ = any('special' in c['data'] for c in chans)
    rows = min(c['data']['shape'][0] for c in chans)
    ics = (spec.get('write') or {}).get('ics')
    rem = bool(ics) and rows % ics != 0
    labels = [l for l, f in (('multi-channel', multi), ('2d', twod), ('big-endian', be), ('non-contiguous', lay),
                             ('specials', spec_), ('chunk-remainder', rem),
                             ('cast', any(c.get('cast') for c in chans))) if f]
    return bool(labels), labels


def long_frame_cases(ctx):
    """Frames whose row numbers cross the 1/2/4-byte forms of the frame number (127/128, 16383/16384)."""
    rows_list = [130, 16390] if ctx.tier == 'quick' else [127, 128, 129, 200, 16383, 16384, 16385, 16500, 33000]
    plan = [(rows, {'ics': 5000} if rows > 1000 else {}) for rows in rows_list]
    # hundreds of rows through the other data routes in chunks that do not divide powers of two
    plan += [(300, {'source': 'hdf5', 'ics': 100}), (700, {'source': 'dict', 'ics': 250}),
             (300, {'source': 'struct', 'ics': 7}), (700, {'source': 'hdf5', 'ics': 50, 'from': 5, 'to': 690})]
    for k, (rows, w) in enumerate(plan):
        if k % ctx.nshards != ctx.shard:
            continue
        yield {'kind': 'spec', 'sul': {'vrl': 8192}, 'write': w,
               'lfs': [{'hdr': {}, 'ops': [
                   {'t': 'origin', 'name': 'O', 'attrs': {'file_set_number': {'v': 3, 'r': 'kw'},
                                                          'creation_time': {'v': {'$dt': '2012-12-12T12:12:12', 'tz': 0},
                                                                            'r': 'kw'}}},
                   {'t': 'channel', 'name': 'ROWS', 'data': {'dt': '<u2', 'shape': [rows], 'pat': [rows % 250 | 1, 3]},
                    'attrs': {}},
                   {'t': 'channel', 'name': 'PAIR', 'data': {'dt': '|u1', 'shape': [rows, 2], 'pat': [7, 1]}, 'attrs': {}},
                   {'t': 'frame', 'name': 'LONG', 'attrs': {'channels': {'v': [{'$ref': 1}, {'$ref': 2}], 'r': 'kw'}}}]}]}


class C03(Property):
    id = 'C03'
    number = 3
    technique = ("Hypothesis-generated frames written through the public API; round-trip oracle: FDATA records "
                 "decoded by the independent reader compared bit for bit with numpy's astype/big-endian tobytes of "
                 "the input rows")
    rule = ("cases: 1-2 frames of 1-5 channels, 8 dtypes x 2 byte orders, scalar/2-D, 6 memory layouts, raw bit "
            "patterns plus special values, optional well-defined cast, input chunk sizes, record lengths, data "
            "sources; non-trivial = >= 2 channels in a frame, or a 2-D channel, or big-endian source, or "
            "non-contiguous layout, or special values, or a cast, or rows not a multiple of the chunk size")
    assumptions = ("numpy astype / tobytes define the expected big-endian slot bytes",
                   "casts are restricted to those numpy defines (finite, in-range, integral for float->int)")

    def enumerate(self, ctx):
        return long_frame_cases(ctx)

    def searches(self, ctx):
        n = 3200 if ctx.tier == 'quick' else 40000
        # second family: channels of one logical file spread over differently named CHANNEL sets, names from a small pool
        # (same-named channels in different sets, each with its own data set and rows)
        sets = profile(ctx.tier)
        sets.named_sets = True
        sets.set_names_per_type_differ = True
        sets.name_pool = ['DEPTH', 'GR', 'IMG']
        sets.max_frames = 3
        sets.sources = ('inline', 'dict')
        return [('frames', file_specs(profile(ctx.tier)), (n * 3 // 4) // ctx.nshards),
                ('frames-in-named-sets', file_specs(sets), (n // 4) // ctx.nshards)]

    def run(self, spec, ctx):
        r, dec, ferr = specrun.write_and_decode(spec, ctx)
        nt, labels = nontrivial(spec)
        labels.append('src:' + (spec.get('write') or {}).get('source', 'inline'))
        if any(op['t'] == 'channel' and op['data']['shape'][0] > 127 for lf in spec['lfs'] for op in lf['ops']):
            labels.append('rows>127')
        if any(op['t'] == 'channel' and op['data']['shape'][0] > 16383 for lf in spec['lfs'] for op in lf['ops']):
            labels.append('rows>16383')
        if r['outcome'] != 'written':
            return Result([], labels, False, outcome_label(r))
        if ferr is not None:
            return Result([specrun.fmt_violation(ferr)], labels, False, 'written')
        viol = self.judge(spec, dec)
        # second pass, same process: one channel is widened so that the frame's data records are exactly as long as the
        # FILE-HEADER record (same type number 0, explicitly formatted) written before them
        spec2 = self.coincide(spec, dec)
        if spec2 is not None:
            labels.append('row-record-as-long-as-the-file-header-record')
            r2, dec2, ferr2 = specrun.write_and_decode(spec2, ctx)
            if r2['outcome'] == 'written':
                if ferr2 is not None:
                    viol.append(Violation(f"size-coincidence/undecodable/{ferr2.kind}", f"{ferr2.detail} @ {ferr2.offset}"))
                else:
                    viol += [Violation('size-coincidence/' + v.sig, v.detail) for v in self.judge(spec2, dec2)]
        return Result(viol, labels, nt, 'written', sample=spec_summary(spec))

    @staticmethod
    def judge(spec, dec):
        exp = Expectation(spec)
        viol = []
        for i, dlf in enumerate(dec.logical_files):
            opmap, probs = compare.map_objects(dlf, exp, i)
            for k, w, d in probs:
                viol.append(Violation(f"{k}/{w}", d))
            probs, stats = compare.check_frames(dlf, exp, i, opmap)
            for k, w, d in probs:
                viol.append(Violation(f"{k}/{w}", d))
        return viol

    @staticmethod
    def coincide(spec, dec):
        import copy
        import numpy as np
        if len(spec['lfs']) != 1 or not dec.logical_files:
            return None
        dlf = dec.logical_files[0]
        heads = [len(rec.body) for rec in dlf.records if rec.is_eflr and rec.type == 0]
        rows = [rec for rec in dlf.records if not rec.is_eflr and rec.type == 0]
        ops = spec['lfs'][0]['ops']
        frames = [op for op in ops if op['t'] == 'frame']
        if not heads or not rows or not frames:
            return None
        delta = heads[0] - len(rows[0].body)         # the first data record belongs to the first frame written
        # (frames are written in creation order; the reader keeps file order)
        first = min((j for j, op in enumerate(ops) if op['t'] == 'frame'))
        chans = [c['$ref'] for c in ops[first]['attrs']['channels']['v']]
        if delta <= 0 or not chans:
            return None
        j = chans[-1]
        if sum(1 for op in ops if op['t'] == 'frame' and any(c['$ref'] == j for c in op['attrs']['channels']['v'])) != 1:
            return None
        c = ops[j]
        if c.get('data') is None or c.get('data_from') is not None or any(o.get('data_from') == j for o in ops):
            return None
        if c.get('cast'):
            return None      # (new data under a declared cast could leave the domain of well-defined casts)
        size = np.dtype(c['data']['dt']).itemsize
        if delta % size or any(k in (c.get('attrs') or {}) for k in ('dimension', 'element_limit')):
            return None
        d = c['data']
        width = (d['shape'][1] if len(d['shape']) > 1 else 1) + delta // size
        s2 = copy.deepcopy(spec)
        s2['write'] = {k: v for k, v in (s2.get('write') or {}).items() if k != 'prelude'}
        nd = {'dt': d['dt'], 'shape': [d['shape'][0], width], 'pat': [5, 9]}
        if d.get('layout'):
            nd['layout'] = d['layout']
        s2['lfs'][0]['ops'][j]['data'] = nd
        return s2


PROP = C03()
