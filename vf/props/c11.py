"""C11 - All data sources are equivalent and the row window selects exactly its rows."""
import copy

import numpy as np
from hypothesis import strategies as st

from vf import dw
from vf.core import Property, Result, Violation
from vf.rp66 import FormatError, read_file
from vf.spec import build as B, compare, model
from vf.spec.expect import Expectation
from vf.spec.strategies import Profile, file_specs
from vf.props.e2e import outcome_label, spec_summary

SOURCES = ('inline', 'dict', 'struct', 'hdf5')


@st.composite
def strategy(draw, cls=None):
    if cls == 'many-rows':
        # more rows than any plausible internal block (1024, 2048, 4096), with input chunk sizes that do not divide
        # such a block and windows that start or end next to a block boundary
        prof = Profile(vrl=[8192], max_frames=1, max_channels=2, max_rows=4, max_width=2, casts=False, units=False,
                       sources=('struct',), upper_names=True, index_types=False, dtypes=['u1', 'i2', 'f4'])
        spec = draw(file_specs(prof))
        spec['write'].pop('source', None)
        rows = draw(st.sampled_from([1025, 1100, 2049, 2500, 4097])) + draw(st.integers(0, 300))
        for op in spec['lfs'][0]['ops']:
            if op['t'] == 'channel' and op.get('data') is not None:
                d = op['data']
                op['data'] = {'dt': d['dt'], 'shape': [rows] + list(d['shape'][1:]),
                              'pat': [draw(st.integers(0, 127)) * 2 + 1, draw(st.integers(0, 255))]}
        w = spec['write']
        ics = draw(st.sampled_from([None, 7, 100, 333, 1000, 1023, 1025, 2047, 3000]))
        if ics is not None:
            w['ics'] = ics
        if draw(st.booleans()):
            w['from'] = draw(st.sampled_from([1, 5, 1000, 1023, 1024, 1030]))
            if draw(st.booleans()):
                w['to'] = rows - draw(st.integers(0, 40))
        spec['opts'] = {'perm': draw(st.sampled_from([None, 'rev'])), 'extra': []}
        spec['many_rows'] = True
        return spec
    if cls == 'permuted-exact':
        # one frame; the structured array has exactly the frame's fields, under the channels' own names, in another order
        prof = Profile(vrl=[256, 8192], max_frames=1, max_channels=4, max_rows=16, max_width=3, casts=True,
                       layouts=('C', 'ro'), units=False, sources=('struct',), chunks=True, windows=True, upper_names=True)
        spec = draw(file_specs(prof))
        spec['write'].pop('source', None)
        spec['write'].pop('ocs', None)
        spec['opts'] = {'perm': draw(st.sampled_from(['rev', 'rot'])), 'extra': []}
        spec['permuted_exact'] = True
        return spec
    plain = cls in ('plain', 'crossed') or (cls is None and draw(st.integers(0, 2)) == 0)
    if plain:
        # a structured array whose dtype coincides with the frame's: the direct-slice path of the numpy wrapper
        prof = Profile(vrl=[256, 8192], max_frames=1, max_channels=4, max_rows=16, max_width=5, casts=False,
                       byte_orders=('<',), layouts=('C', 'ro'), units=False, sources=('struct',), chunks=True,
                       windows=True, upper_names=True)
    else:
        prof = Profile(vrl=[256, 8192], max_frames=2, max_channels=4, max_rows=16, max_width=5, casts=True,
                       layouts=('C', 'F', 'strided', 'ro'), units=False, sources=('struct',), chunks=True, windows=True,
                       upper_names=True, fractional_index=True)
    spec = draw(file_specs(prof))
    spec['write'].pop('source', None)
    spec['write'].pop('ocs', None)
    if plain:
        spec['opts'] = {'perm': None, 'extra': []}
        spec['plain'] = True
        ops = spec['lfs'][0]['ops']
        chans = [j for j, op in enumerate(ops) if op['t'] == 'channel']
        if len(chans) >= 2 and (cls == 'crossed' or (cls is None and draw(st.booleans()))):
            # two channels whose dataset names are each other's channel names; the structured array lists its fields in
            # the order of the frame's channel names, so its dtype still coincides with the frame's
            a, b = chans[0], chans[1]
            ops[b]['data'] = dict(ops[a]['data'], pat=[draw(st.integers(0, 60)) * 2 + 1, draw(st.integers(0, 255))])
            ops[b]['data'].pop('hex', None)
            ops[b]['data'].pop('special', None)
            ops[a]['dsname'], ops[b]['dsname'] = ops[b]['name'], ops[a]['name']
            spec['opts']['field_order'] = [ops[j]['name'] for j in chans]
            spec['crossed'] = True
        return spec
    k = 0
    for op in spec['lfs'][0]['ops']:
        if op['t'] == 'channel':
            k += 1
            m = draw(st.integers(0, 4))
            if m == 1:
                op['dsname'] = f"DS_{k}"
            elif m == 2:
                op['dsname'] = f"grp/sub/DS_{k}"
            elif m == 3:
                op['dsname'] = f"/top/DS_{k}"
    spec['opts'] = {'perm': draw(st.sampled_from([None, 'rev', 'rot'])),
                    'extra': draw(st.lists(st.integers(0, 3), max_size=2, unique=True))}
    return spec


def presliced(spec):
    s = copy.deepcopy(spec)
    w = s['write']
    f, t = w.pop('from', 0) or 0, w.pop('to', None)
    for lf in s['lfs']:
        for op in lf['ops']:
            if op['t'] == 'channel' and op.get('data') is not None:
                arr = model.logical_array(op['data'])[f:t]
                op['data'] = model.array_spec_from(arr)
                op['data']['dt'] = arr.dtype.str if arr.dtype.itemsize > 1 else op['data']['dt']
    return s


class C11(Property):
    id = 'C11'
    number = 11
    technique = ("differential testing across the four data-supply routes and a metamorphic relation for the row window: "
                 "Hypothesis-generated frames are written inline, from a dict, from a structured array (fast and copy "
                 "path) and from an HDF5 file with permuted fields, extra datasets and dataset-name mappings; files must "
                 "be byte-identical, and a windowed write must equal the write of the pre-sliced arrays")
    rule = ("cases: 1-2 frames (equal row counts; one class with 1025..4400 rows, input chunk sizes that do not divide a "
            "power of two and windows next to row 1024) x 4 routes x source permutation / extra datasets / dataset_name "
            "mappings (plain, nested HDF5 groups, leading slash) x window 0 <= from < to <= rows (or open) x input chunk "
            "size; non-trivial = >= 2 routes compared with a permuted source, or a window with from_idx > 0")

    def searches(self, ctx):
        n = 1600 if ctx.tier == 'quick' else 16000
        from vf.core import stratified
        return [('routes', strategy(), (n * 5 // 8) // ctx.nshards)] + \
            stratified('class', lambda c: strategy(c), ['plain', 'crossed', 'permuted-exact', 'many-rows'], n * 3 // 8, ctx)

    def run(self, spec, ctx):
        dw.check_import_location()
        spec = copy.deepcopy(spec)
        opts = spec.pop('opts', {})
        plain = spec.pop('plain', False)
        crossed = spec.pop('crossed', False)
        permuted_exact = spec.pop('permuted_exact', False)
        many_rows = spec.pop('many_rows', False)
        w = spec['write']
        window = bool(w.get('from')) or w.get('to') is not None
        labels = ['window' if window else 'no-window']
        if plain:
            labels.append('struct-dtype-coincides')
        if crossed:
            labels.append('crossed-dataset-names')
        if permuted_exact:
            labels.append('exactly-the-frames-fields-permuted')
        if many_rows:
            labels.append('rows>1024')
        if w.get('from'):
            labels.append('from>0')
        if opts.get('perm'):
            labels.append('permuted')
        ops0 = spec['lfs'][0]['ops']
        for op in ops0:
            if op['t'] == 'frame' and 'index_type' in op['attrs']:
                c = ops0[op['attrs']['channels']['v'][0]['$ref']]
                if c.get('cast') and c.get('data') is not None:
                    a = model.logical_array(c['data'])
                    if not np.array_equal(a.astype(B.cast_dtype_of(c['cast'])).astype(a.dtype), a):
                        labels.append('index-channel-cast-lossy')
                        break
        if opts.get('extra'):
            labels.append('extra-datasets')
        # reference: pre-sliced arrays, inline, no window
        ref_spec = presliced(spec)
        ref_spec['write']['source'] = 'inline'
        r0 = B.build_and_write(ref_spec, ctx.path(), ctx.scratch)
        if r0['outcome'] != 'written':
            return Result([], labels, False, 'reference-' + outcome_label(r0))
        ref = r0['buf']
        viol = []
        compared = 0
        for src in SOURCES:
            s = copy.deepcopy(spec)
            s['write']['source'] = src
            s['write']['opts'] = opts
            r = B.build_and_write(s, ctx.path(), ctx.scratch)
            if r['outcome'] != 'written':
                tn, site = dw.exc_site(r['exc'])
                viol.append(Violation(f"route-raised/{src}/{tn}@{site}", f"{r['exc']}"[:300]))
                continue
            compared += 1
            if r['buf'] != ref:
                kind = 'window' if window else 'plain'
                detail = f"source {src}: {len(r['buf'])} bytes vs reference {len(ref)}"
                try:
                    dec = read_file(r['buf'])
                    exp = Expectation(ref_spec)
                    opmap, probs = compare.map_objects(dec.logical_files[0], exp, 0)
                    fp, _ = compare.check_frames(dec.logical_files[0], exp, 0, opmap)
                    if fp:
                        detail += '; ' + fp[0][2]
                except FormatError as exc:
                    detail += f"; undecodable: {exc}"
                viol.append(Violation(f"route-differs/{src}/{kind}{'+from>0' if w.get('from') else ''}", detail))
        nt = (compared >= 2 and bool(opts.get('perm'))) or bool(w.get('from'))
        return Result(viol, labels, nt, 'written', sample=spec_summary(spec))


PROP = C11()
