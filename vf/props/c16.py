"""C16 - No-format payloads come back exactly, in order, under their object."""
from hypothesis import strategies as st

from vf.core import Property, Result, Violation
from vf.spec.strategies import Profile, file_specs
from vf.spec.expect import Expectation
from vf.spec import compare
from vf.props import specrun
from vf.props.e2e import outcome_label, spec_summary


def strategy():
    small = Profile(vrl='small', max_frames=1, max_channels=2, max_rows=3, max_width=2, noformat=3,
                    nf_payload_max=800, index_types=False, units=False, name_max=8, preludes=True)
    large = Profile(vrl='mixed', max_frames=1, max_channels=2, max_rows=3, max_width=2, noformat=3,
                    nf_payload_max=50000, index_types=False, units=False, name_max=40)
    # several frames and logical files around the payloads (each record must still appear exactly once, under its object)
    frames = Profile(vrl=[64, 128, 8192], max_frames=3, max_channels=2, max_rows=3, max_width=2, noformat=3,
                     nf_payload_max=300, index_types=False, units=False, name_max=8, max_lfs=2, lf_distinct_sets=True)
    # ... and NO-FORMAT objects spread over differently named NO-FORMAT sets, their records added in alternation
    sets = Profile(vrl=[128, 8192], max_frames=2, max_channels=2, max_rows=3, max_width=2, noformat=3, nf_payload_max=100,
                   index_types=False, units=False, name_max=8, named_sets=True, set_names_per_type_differ=True)
    return st.one_of(file_specs(small), file_specs(small), file_specs(large), file_specs(frames), file_specs(sets))


class C16(Property):
    id = 'C16'
    number = 16
    technique = ("Hypothesis-generated payload sequences over 1-3 NO-FORMAT objects written through the public API; "
                 "round-trip oracle: type-1 IFLRs decoded by the independent reader == payloads in add order")
    rule = ("cases: 0-5 payloads (bytes / bytearray / str; length 0..several segment capacities; arbitrary byte values "
            "incl. trailing 0x01) over 1-3 NO-FORMAT objects x record lengths, a quarter of the cases with 1-3 frames in 1-2 logical files; non-trivial = >= 2 payloads with one "
            "shorter than 8 bytes or longer than a segment capacity")

    def searches(self, ctx):
        n = 3200 if ctx.tier == 'quick' else 40000
        return [('payloads', strategy(), n // ctx.nshards)]

    def run(self, spec, ctx):
        r, dec, ferr = specrun.write_and_decode(spec, ctx)
        pl = [len(bytes.fromhex(op['payload']['hex'])) for lf in spec['lfs'] for op in lf['ops'] if op['t'] == 'nfdata']
        cap = spec['sul']['vrl'] - 8
        labels = []
        if any(n == 0 for n in pl):
            labels.append('empty-payload')
        if any(0 < n < 8 for n in pl):
            labels.append('payload<8')
        if any(n > cap for n in pl):
            labels.append('payload>capacity')
        nfr = sum(1 for lf in spec['lfs'] for op in lf['ops'] if op['t'] == 'frame')
        if nfr >= 2 and pl:
            labels.append('payloads-with>=2-frames')
        if len(spec['lfs']) >= 2 and pl:
            labels.append('payloads-with>=2-logical-files')
        nt = len(pl) >= 2 and any(n < 8 or n > cap for n in pl)
        if r['outcome'] != 'written':
            return Result([], labels, False, outcome_label(r))
        if ferr is not None:
            return Result([specrun.fmt_violation(ferr)], labels, False, 'written')
        viol = self.judge(spec, dec)
        # second pass, same process: one payload is resized so that its record is exactly as long as an explicitly
        # formatted record of the same type number (ORIGIN / WELL-REFERENCE: 1) written before it - a size coincidence
        # that anything remembered per (type number, length) would trip over
        spec2 = self.coincide(spec, dec)
        if spec2 is not None:
            labels.append('record-as-long-as-an-origin-record')
            r2, dec2, ferr2 = specrun.write_and_decode(spec2, ctx)
            if r2['outcome'] == 'written':
                if ferr2 is not None:
                    viol.append(Violation(f"size-coincidence/undecodable/{ferr2.kind}", f"{ferr2.detail} @ {ferr2.offset}"))
                else:
                    viol += [Violation('size-coincidence/' + v.sig, v.detail) for v in self.judge(spec2, dec2)]
        return Result(viol, labels, nt, 'written', sample={'vrl': spec['sul']['vrl'], 'payload_lengths': pl})

    @staticmethod
    def judge(spec, dec):
        exp = Expectation(spec)
        viol = []
        for i, dlf in enumerate(dec.logical_files):
            opmap, probs = compare.map_objects(dlf, exp, i)
            probs = probs + compare.check_noformat(dlf, exp, i, opmap)
            for k, w, d in probs:
                viol.append(Violation(f"{k}/{w}", d))
        return viol

    @staticmethod
    def coincide(spec, dec):
        import copy
        for i, dlf in enumerate(dec.logical_files[:len(spec['lfs'])]):
            targets = [len(rec.body) for rec in dlf.records if rec.is_eflr and rec.type == 1]
            if not targets or not dlf.noformat:
                continue
            obname, payload, ridx = dlf.noformat[0]
            recs = [rec for rec in dlf.records if not rec.is_eflr and rec.type == 1]
            if not recs:
                continue
            overhead = len(recs[0].body) - len(payload)
            want = targets[0] - overhead
            ops = spec['lfs'][i]['ops']
            js = [j for j, op in enumerate(ops) if op['t'] == 'nfdata']
            if want < 0 or not js or overhead < 0:
                continue
            s2 = copy.deepcopy(spec)
            s2['write'] = {k: v for k, v in (s2.get('write') or {}).items() if k != 'prelude'}
            s2['lfs'][i]['ops'][js[0]]['payload'] = {'k': 'bytes', 'hex': bytes((7 * n + 1) % 251 for n in range(want)).hex()}
            return s2
        return None


PROP = C16()
