"""C08 - A frame's channel descriptors match the layout of its data records."""
import numpy as np
from hypothesis import strategies as st

from vf.core import Property, Result, Violation
from vf.rp66.codes import FIXED_SIZE, uvari_minimal_len
from vf.spec import compare, model
from vf.spec.expect import Expectation, CODE_OF_DTYPE
from vf.spec.strategies import Profile, file_specs
from vf.props import specrun
from vf.props.e2e import outcome_label, spec_summary


INCONSISTENT = ['dimension', 'element_limit-small', 'dimension-rank', 'element_limit-rank']


@st.composite
def strategy(draw, which=None):
    prof = Profile(vrl=[128, 1024, 8192], max_frames=3, max_channels=4, max_rows=6, max_width=9, casts=True,
                   full_attrs=True, meta_kinds=('axis',), max_meta=2, units=False,
                   sources=('inline', 'dict', 'struct'), shared_datasets=True, upper_names=True)
    spec = draw(file_specs(prof))
    if spec['write'].get('source') == 'struct' and draw(st.booleans()):
        spec['write']['opts'] = {'aligned': True}
    lf = spec['lfs'][0]
    chans = [j for j, op in enumerate(lf['ops']) if op['t'] == 'channel']
    frames = [j for j, op in enumerate(lf['ops']) if op['t'] == 'frame']
    mode = 0 if which else draw(st.integers(0, 9))
    if mode == 0 and chans:
        # inconsistent user descriptor: must be rejected
        wide = [j for j in chans if (list(lf['ops'][j]['data']['shape'][1:]) or [1])[0] > 1 and not lf['ops'][j].get('data_from')]
        j = draw(st.sampled_from(wide if (wide and which in ('element_limit-small', 'element_limit-rank')) else chans))
        op = lf['ops'][j]
        dim = list(op['data']['shape'][1:]) or [1]
        which = which or draw(st.sampled_from(INCONSISTENT))
        op['attrs'].pop('axis', None)
        if which == 'element_limit-rank' and dim[0] > 1:
            # more entries than the sample has dimensions; the first does not bound the width, the product does
            first = draw(st.integers(1, dim[0] - 1))
            op['attrs']['element_limit'] = {'v': [first, dim[0] * draw(st.integers(1, 5))], 'r': draw(st.sampled_from(['kw', 'later']))}
            op['attrs'].pop('dimension', None)
            spec['inconsistent'] = which
            return spec
        if which == 'dimension':
            op['attrs']['dimension'] = {'v': [dim[0] + draw(st.integers(1, 3))], 'r': 'kw'}
            op['attrs'].pop('element_limit', None)
        elif which == 'element_limit-small' and dim[0] > 1:
            op['attrs']['element_limit'] = {'v': [dim[0] - 1], 'r': 'kw'}
            op['attrs'].pop('dimension', None)
        else:
            op['attrs']['dimension'] = {'v': dim + [2], 'r': 'kw'}
            op['attrs'].pop('element_limit', None)
        spec['inconsistent'] = which
    elif mode == 1 and len(frames) >= 2:
        # a channel shared by two frames (same row count required): documented as accepted with a warning
        f0, f1 = lf['ops'][frames[0]], lf['ops'][frames[1]]
        c0 = f0['attrs']['channels']['v'][-1]['$ref']
        r0 = lf['ops'][c0]['data']['shape'][0]
        r1 = lf['ops'][f1['attrs']['channels']['v'][0]['$ref']]['data']['shape'][0]
        names1 = {lf['ops'][r['$ref']]['name'] for r in f1['attrs']['channels']['v']}
        if r0 == r1 and c0 < frames[1] and lf['ops'][c0]['name'] not in names1:
            f1['attrs']['channels']['v'].append({'$ref': c0})
            spec['shared_channel'] = True
    elif mode == 2:
        # a channel in no frame
        rows_ = lf['ops'][chans[0]]['data']['shape'][0] if chans else 3     # (a structured source has one row count)
        lf['ops'].append({'t': 'channel', 'name': 'LONELY', 'data': {'dt': '<i2', 'shape': [rows_, 2], 'pat': [3, 1]},
                          'attrs': {}})
        spec['unframed_channel'] = True
    return spec


def np_code(op):
    return CODE_OF_DTYPE[op['cast'].lstrip('<>')] if op.get('cast') else CODE_OF_DTYPE[np.dtype(op['data']['dt']).name]



def check_descriptors(dlf, exp, i, opmap):
    out = []
    for ef in exp.frames(i):
        if ef.obj.op_index not in opmap:
            continue
        fo = opmap[ef.obj.op_index][0]
        where = f"frame {ef.obj.name!r}"
        listed = fo.attrs['CHANNELS'].values or []
        if len(listed) != len(ef.channels):
            out.append(('frame-channel-count', 'channels', f"{where} lists {len(listed)} channels, {len(ef.channels)} given"))
            continue
        row_bytes = 0
        for (cj, co), cn in zip(ef.channels, listed):
            found = dlf.find('CHANNEL', cn)
            if len(found) != 1 or cj not in opmap or found[0][0] is not opmap[cj][0]:
                out.append(('frame-channel-identity', 'channels', f"{where}: listed channel {cn} is not the one given"))
                continue
            ch = found[0][0]
            want_code = np_code(co.op)
            rc = ch.attrs.get('REPRESENTATION-CODE')
            got_code = rc.values[0] if rc is not None and rc.values else None
            if got_code != want_code:
                out.append(('channel-repcode', f"{co.op['data']['dt'][1:]}{'+cast' if co.op.get('cast') else ''}",
                            f"{where} channel {co.name!r}: REPRESENTATION-CODE {got_code}, data are written as "
                            f"{want_code}"))
            want_dim = list(co.op['data']['shape'][1:]) or [1]
            dim = ch.attrs.get('DIMENSION')
            got_dim = dim.values if dim is not None else None
            if got_dim != want_dim:
                out.append(('channel-dimension', '2d' if len(co.op['data']['shape']) > 1 else 'scalar',
                            f"{where} channel {co.name!r}: DIMENSION {got_dim}, per-row shape {want_dim}"))
            el = ch.attrs.get('ELEMENT-LIMIT')
            got_el = el.values if el is not None else None
            if got_el is None or len(got_el) < len(want_dim) or any(e < d for e, d in zip(got_el, want_dim)):
                out.append(('channel-element-limit', 'bound', f"{where} channel {co.name!r}: ELEMENT-LIMIT {got_el} does "
                                                              f"not bound {want_dim}"))
            n = 1
            for d in want_dim:
                n *= d
            row_bytes += FIXED_SIZE[want_code] * n
        rows = dlf.frame_rows.get(fo.name, [])
        name_len = uvari_minimal_len(fo.name[0]) + 1 + 1 + len(fo.name[2])
        for r in rows:
            want = name_len + uvari_minimal_len(r.number) + row_bytes
            if r.body_len != want:
                out.append(('fdata-record-length', 'length', f"{where} row {r.number}: record body {r.body_len} bytes, "
                                                             f"descriptors imply {want}"))
                break
    return out


class C08(Property):
    id = 'C08'
    number = 8
    technique = ("Hypothesis-generated frames with casts, user-supplied dimension / element limit (consistent or not), "
                 "shared and unframed channels; decoded CHANNEL descriptors and FDATA record lengths are compared with "
                 "a dtype table and shapes computed from the specification; inconsistent descriptors must raise")
    rule = ("cases: 1-3 frames of 1-4 channels, 8 dtypes, scalar/2-D, optional cast, optional user DIMENSION / "
            "ELEMENT-LIMIT / AXIS; 10 % with an inconsistent descriptor (must be rejected), 10 % with a channel shared "
            "by two frames, 10 % with a channel in no frame; non-trivial = >= 2 channels of different codes, or a cast, "
            "or a 2-D channel, or a user-supplied descriptor")

    def enumerate(self, ctx):
        from vf.props.c03 import long_frame_cases
        return long_frame_cases(ctx)

    def searches(self, ctx):
        n = 3200 if ctx.tier == 'quick' else 40000
        from vf.core import stratified
        return [('descriptors', strategy(), n // ctx.nshards)] + \
            stratified('inconsistent', lambda w: strategy(w), INCONSISTENT, n // 8, ctx)

    def run(self, spec, ctx):
        spec = dict(spec)
        inconsistent = spec.pop('inconsistent', None)
        shared = spec.pop('shared_channel', False)
        unframed = spec.pop('unframed_channel', False)
        chans = [op for op in spec['lfs'][0]['ops'] if op['t'] == 'channel']
        codes = {np_code(c) for c in chans}
        user = any(k in c['attrs'] for c in chans for k in ('dimension', 'element_limit'))
        labels = [l for l, f in (('codes>=2', len(codes) >= 2), ('cast', any(c.get('cast') for c in chans)),
                                 ('2d', any(len(c['data']['shape']) > 1 for c in chans)), ('user-descriptor', user),
                                 ('inconsistent:' + str(inconsistent), bool(inconsistent)),
                                 ('shared-channel', shared), ('unframed-channel', unframed)) if f]
        nt = len(codes) >= 2 or any(c.get('cast') for c in chans) or any(len(c['data']['shape']) > 1 for c in chans) \
            or user
        r, dec, ferr = specrun.write_and_decode(spec, ctx)
        if inconsistent:
            if r['outcome'] == 'written':
                return Result([Violation(f"inconsistent-descriptor-accepted/{inconsistent}",
                                         f"user descriptor contradicts the data but the file was written")],
                              labels, nt, 'written')
            return Result([], labels, nt, 'rejected-as-required')
        if r['outcome'] != 'written':
            return Result([], labels, False, outcome_label(r))
        if ferr is not None:
            return Result([specrun.fmt_violation(ferr)], labels, False, 'written')
        exp = Expectation(spec)
        viol = []
        for i, dlf in enumerate(dec.logical_files):
            opmap, probs = compare.map_objects(dlf, exp, i)
            probs += check_descriptors(dlf, exp, i, opmap)
            fp, _ = compare.check_frames(dlf, exp, i, opmap)
            probs += fp
            for k, w, d in probs:
                viol.append(Violation(f"{k}/{w}", d))
        return Result(viol, labels, nt, 'written', sample=spec_summary(spec))


PROP = C08()
