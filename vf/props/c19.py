"""C19 - Writing never alters the caller's data."""
import copy
import hashlib

import numpy as np
from hypothesis import strategies as st

from vf import dw
from vf.core import Property, Result, Violation
from vf.spec import build as B
from vf.spec.strategies import Profile, file_specs
from vf.props.e2e import spec_summary

SOURCES = ('inline', 'dict', 'struct', 'hdf5', 'mixed')


@st.composite
def strategy(draw):
    prof = Profile(vrl=[256, 8192], max_frames=2, max_channels=4, max_rows=16, max_width=5, casts=True, any_casts=True, nonmonotonic_index=True,
                   layouts=('C', 'F', 'strided', 'neg', 'ro', 'view'), specials=True, units=False,
                   sources=('struct',), chunks=True, windows=True, upper_names=True)
    plain = draw(st.integers(0, 3)) == 0
    plain_hc = plain and draw(st.integers(0, 2)) == 0
    if plain:
        # a structured array whose dtype coincides with the frame's (native byte order, no casts, fields in channel
        # order): the writer may then hand out views of the caller's array instead of copies.  A third of these are
        # written inside high-compatibility mode, from data the mode accepts (unsigned / float, uniform index)
        prof = Profile(vrl=[256, 8192], max_frames=1, max_channels=4, max_rows=16, max_width=5, casts=False,
                       byte_orders=('<',), layouts=('C',), specials=True, units=False, sources=('struct',), chunks=True,
                       windows=True, upper_names=True, **(dict(dtypes=('u1', 'u2', 'u4', 'f4', 'f8'), uniform_index=True)
                                                          if plain_hc else {}))
    spec = draw(file_specs(prof))
    if plain:
        spec['write']['source'] = 'struct'
        spec['write']['opts'] = {'perm': None, 'extra': []}
        if draw(st.booleans()):
            # every field is used, in the array's own order, under a dataset name that differs from the channel name
            k = 0
            for op in spec['lfs'][0]['ops']:
                if op['t'] == 'channel':
                    k += 1
                    op['dsname'] = f"field_{k}"
            spec['renamed_fields'] = True
        spec['fail'] = None
        spec['plain'] = True
        spec['hc'] = plain_hc
        return spec
    spec['write']['source'] = draw(st.sampled_from(SOURCES))
    spec['write']['opts'] = {'perm': draw(st.sampled_from([None, 'rev'])),
                             'extra': draw(st.lists(st.integers(0, 2), max_size=1))}
    if spec['write']['source'] == 'mixed':
        # some channels get their data at add_channel(), the others through the dict passed to write()
        chans = [j for j, op in enumerate(spec['lfs'][0]['ops']) if op['t'] == 'channel']
        spec['write']['opts']['inline_ops'] = [j for k, j in enumerate(chans) if k % 2 == draw(st.integers(0, 1))]
    spec['fail'] = draw(st.sampled_from([None, None, None, 'missing-dataset', 'bad-ocs']))
    if spec['write']['source'] in ('dict', 'mixed'):
        # the dict may be a dict subclass whose look-ups have side effects (defaultdict) or that keeps an order
        spec['dict_kind'] = draw(st.sampled_from([None, 'defaultdict', 'defaultdict', 'ordered']))
    spec['hc'] = draw(st.integers(0, 3)) == 0       # built and written inside high-compatibility mode (may refuse: fine)
    return spec


def fingerprint(arr):
    base = arr
    while isinstance(getattr(base, 'base', None), np.ndarray):
        base = base.base
    raw = bytes(np.ascontiguousarray(base).view(np.uint8).reshape(-1).tobytes()) if base.size else b''
    # field names and layout as plain values: a dtype object is shared between an array, its slices and its copies, so
    # comparing dtype objects (or arrays) cannot see a rename made through that shared object
    return (hashlib.sha256(arr.tobytes()).hexdigest(), arr.dtype.str, arr.shape, arr.strides, bool(arr.flags.writeable),
            hashlib.sha256(raw).hexdigest(), base.shape, base.dtype.str, repr(arr.dtype.descr), repr(base.dtype.descr))


class C19(Property):
    id = 'C19'
    number = 19
    technique = ("Hypothesis-generated frames supplied through each of the four data routes (incl. read-only arrays, "
                 "views into larger buffers, negative strides, casts, byte swapping, chunking, windows; successful and "
                 "failing writes); invariant oracle: fingerprints of every caller-owned buffer, dict and file before and "
                 "after write()")
    rule = ("cases: 1-2 frames x {inline, dict, structured array, HDF5} x layouts x casts x chunk sizes x windows; 40 % "
            "of the writes are made to fail (missing dataset, rejected output chunk size); non-trivial = structured "
            "route, or a cast, or non-native byte order, with >= 2 input chunks")

    def searches(self, ctx):
        n = 3200 if ctx.tier == 'quick' else 40000
        return [('buffers', strategy(), n // ctx.nshards)]

    def run(self, spec, ctx):
        dw.check_import_location()
        spec = copy.deepcopy(spec)
        fail = spec.pop('fail', None)
        plain = spec.pop('plain', False)
        renamed = spec.pop('renamed_fields', False)
        hc = spec.pop('hc', False)
        dict_kind = spec.pop('dict_kind', None)
        import contextlib
        from dliswriter import high_compatibility_mode
        from dliswriter.configuration import global_config
        mode = high_compatibility_mode if hc else contextlib.nullcontext
        src = spec['write'].get('source', 'inline')
        chans = [op for lf in spec['lfs'] for op in lf['ops'] if op['t'] == 'channel']
        rows = min(c['data']['shape'][0] for c in chans)
        ics = spec['write'].get('ics')
        labels = ['src:' + src] + (['fail:' + fail] if fail else []) + (['struct-dtype-coincides'] if plain else []) + (['fields-under-other-names'] if renamed else [])
        nt = (src == 'struct' or any(c.get('cast') for c in chans) or any(c['data']['dt'][0] == '>' for c in chans)) \
            and bool(ics) and ics < rows
        if hc:
            labels.append('high-compatibility-mode')
        try:
            with mode():
                b = B.build(spec, ctx.scratch)
        except B.BuildError as be:
            global_config.high_compat_mode = False
            return Result([], labels, False, f"raised-build:{type(be.exc).__name__}")
        data = B.make_source(spec, b, ctx.scratch)
        kw = B.write_kwargs(spec)
        if fail == 'bad-ocs':
            kw['output_chunk_size'] = spec['sul']['vrl'] - 2
        if fail == 'missing-dataset' and isinstance(data, dict) and data:
            data.pop(next(iter(reversed(list(data)))))
        if isinstance(data, dict) and dict_kind:
            import collections
            if dict_kind == 'defaultdict':
                wrapped = collections.defaultdict(lambda: np.zeros(rows, dtype=np.float32))
                wrapped.update(data)
            else:
                wrapped = collections.OrderedDict(data)
            data = wrapped
            labels.append('dict-subclass:' + dict_kind)
        if data is not None:
            kw['data'] = data
        before = {k: fingerprint(v) for k, v in b.supplied.items()}
        ids = {k: id(v) for k, v in b.supplied.items()}
        dict_keys = list(data) if isinstance(data, dict) else None
        dict_ids = [id(v) for v in data.values()] if isinstance(data, dict) else None
        h5 = None
        if src == 'hdf5':
            with open(data, 'rb') as f:
                h5 = hashlib.sha256(f.read()).hexdigest()
        outcome = 'written'
        try:
            with mode():
                b.df.write(ctx.path(), **kw)
        except Exception as exc:
            outcome = 'raised:' + type(exc).__name__
        finally:
            global_config.high_compat_mode = False
        viol = []
        for k, v in b.supplied.items():
            after = fingerprint(v)
            if after != before[k]:
                what = [n for n, x, y in zip(('content', 'dtype', 'shape', 'strides', 'writeable', 'base-content',
                                              'base-shape', 'base-dtype', 'field-names', 'base-field-names'),
                                             before[k], after) if x != y]
                viol.append(Violation(f"array-modified/{src}/{'+'.join(what)}", f"{k}: {what} changed ({outcome})"))
        if dict_keys is not None:
            if list(data) != dict_keys:
                viol.append(Violation("dict-keys-changed/dict", f"{dict_keys} -> {list(data)} ({outcome})"))
            elif [id(v) for v in data.values()] != dict_ids:
                viol.append(Violation("dict-values-replaced/dict", f"values replaced ({outcome})"))
        if h5 is not None:
            with open(data, 'rb') as f:
                if hashlib.sha256(f.read()).hexdigest() != h5:
                    viol.append(Violation("hdf5-file-modified/hdf5", f"source file content changed ({outcome})"))
        return Result(viol, labels, nt, outcome.split(':')[0], sample=spec_summary(spec))


PROP = C19()
