"""C17 - High-compatibility mode enforces its restrictions and never leaks."""
import copy
import re

import numpy as np
from hypothesis import strategies as st

from vf import dw
from vf.core import Property, Result, Violation
from vf.rp66 import FormatError, read_file
from vf.spec import build as B, model
from vf.spec.strategies import Profile, file_specs
from vf.spec.table import ENUMS
from vf.props.e2e import outcome_label

HC_NAME = re.compile(r"[A-Z0-9_-]+")
BREACHES = ['name', 'name-empty', 'sul-id', 'hdr-id', 'ident-value', 'signed', 'unframed', 'two-frames', 'nonuniform',
            'unit', 'attr-unit', 'index-type', 'eq-type', 'eq-location']
# soft-enumeration values assigned to an existing object AFTER the mode changed (object built in the other mode)
LATE = ['late-unit', 'late-index-type', 'late-eq-type', 'late-attr-unit']
NAME_BREACH = ('name', 'name-empty', 'sul-id', 'hdr-id', 'ident-value')
BAD_NAMES = ['lower', 'With Space', 'DOT.TED', 'Mixed-Case', 'UPPER lower', 'a', 'X#1', 'NEWLINE\n', 'TAB\tBED', ' LEAD']


def clean_profile():
    return Profile(vrl=[8192], max_frames=2, max_channels=3, max_rows=6, max_width=2, upper_names=True,
                   uniform_index=True, dtypes=('u1', 'u2', 'u4', 'f4', 'f8'),
                   meta_kinds=('zone', 'equipment', 'axis', 'comment', 'parameter', 'tool', 'calibration_coefficient'),
                   max_meta=4, units=True, unit_enums=True, max_origins=3, pin_origin=False, sul_variants=True,
                   hdr_variants=True, attr_routes=('kw', 'dict', 'later'), named_sets=False)


@st.composite
def hc_spec(draw, force=None):
    spec = draw(file_specs(clean_profile()))
    # make file-set numbers explicit for some origins, defaulted for others; creation time always pinned
    for op in spec['lfs'][0]['ops']:
        if op['t'] == 'origin':
            op['attrs']['creation_time'] = {'v': {'$dt': '2011-11-11T11:11:11', 'tz': 0}, 'r': 'kw'}
            if draw(st.integers(0, 3)) == 0:
                op['attrs']['file_set_number'] = {'v': draw(st.integers(1, 1000)), 'r': 'kw'}
    n = draw(st.sampled_from([0, 0, 1, 1, 1, 2, 3]))
    spec['breaches'] = [{'k': draw(st.sampled_from(BREACHES)), 'sel': draw(st.integers(0, 100)),
                         'text': draw(st.sampled_from(BAD_NAMES))} for _ in range(n)]
    if draw(st.integers(0, 3)) == 0:
        # the same DLISFile is written twice, once on each side of the mode boundary (only used for writes made outside)
        spec['again'] = draw(st.sampled_from(['out-in', 'in-out']))
    if force is not None:
        what, arg = force
        if what == 'again':
            spec['again'] = arg
            spec['breaches'] = [{'k': draw(st.sampled_from(sorted(WRITE_TIME))), 'sel': draw(st.integers(0, 100)),
                                 'text': 'x'}] if draw(st.integers(0, 3)) else []
            return spec
        if what == 'clean':
            spec['breaches'] = []
        elif what == 'late':
            spec['breaches'] = []
            spec['late'] = arg
            return spec
        else:
            first = {'k': arg if what == 'b' else draw(st.sampled_from(['name', 'sul-id', 'hdr-id', 'ident-value'])),
                     'sel': draw(st.integers(0, 100)), 'text': arg if what == 'text' else draw(st.sampled_from(BAD_NAMES))}
            spec['breaches'] = [first] + spec['breaches'][:2]
        return spec
    if n == 0 and draw(st.integers(0, 2)) == 0:
        # build the clean specification in the OTHER mode, switch, then assign a non-standard value and write
        spec['late'] = draw(st.sampled_from(LATE))
    return spec


WRITE_TIME = {'signed', 'unframed', 'two-frames', 'nonuniform'}      # breaches that only write() can detect
STRATA = [('again', 'out-in'), ('again', 'in-out')] + [('b', k) for k in BREACHES] + [('late', k) for k in LATE] + [('text', t) for t in BAD_NAMES] + [('clean', None)]


@st.composite
def seqs(draw, depth=0):
    items = []
    for _ in range(draw(st.integers(1, 3 if depth else 4))):
        c = draw(st.sampled_from(['write', 'write', 'block', 'decorated'] if depth < 2 else ['write']))
        if c == 'write':
            items.append({'do': 'write', 'spec': draw(hc_spec())})
        elif c == 'block':
            items.append({'do': 'block', 'exit': draw(st.sampled_from(['normal', 'normal', 'exception', 'base-exception'])),
                          'body': draw(seqs(depth + 1))})
        else:
            items.append({'do': 'decorated', 'spec': draw(hc_spec()), 'exit': draw(st.sampled_from(['normal', 'exception', 'base-exception'])),
                          # a decorated function may call further decorated functions / open blocks
                          'body': draw(seqs(depth + 1)) if depth < 2 and draw(st.booleans()) else []})
    return items


@st.composite
def histories(draw, force=None):
    seq = draw(seqs())
    if force is not None:
        # the stratum's write comes first: directly (outside the mode) or as the body of a block (inside)
        w = {'do': 'write', 'spec': draw(hc_spec(force))}
        if force[0] != 'again' and draw(st.booleans()):
            w = {'do': 'block', 'exit': 'normal', 'body': [w]}
        seq = [w] + seq[:3]
    return {'kind': 'hc-history', 'seq': seq}


def apply_breach(spec, b):
    ops = spec['lfs'][0]['ops']
    k, sel, text = b['k'], b['sel'], b['text']
    chans = [j for j, op in enumerate(ops) if op['t'] == 'channel']
    frames = [j for j, op in enumerate(ops) if op['t'] == 'frame']
    if k == 'name':
        named = [j for j, op in enumerate(ops) if op['t'] != 'nfdata']
        j = named[sel % len(named)]
        ops[j]['name'] = f"{text}{j}"       # (unique: two equal channel names in one frame are not supported)
    elif k == 'name-empty':
        ops.append({'t': 'comment', 'name': '', 'attrs': {}})
    elif k == 'sul-id':
        spec['sul']['id'] = text
    elif k == 'hdr-id':
        spec['lfs'][0].setdefault('hdr', {})['id'] = text
    elif k == 'ident-value':
        ops.append({'t': 'equipment', 'name': 'EQ-IDENT', 'attrs': {'serial_number': {'v': text, 'r': 'kw'}}})
    elif k == 'signed':
        fi = frames[sel % len(frames)]
        f = ops[fi]
        refs = [r['$ref'] for r in f['attrs']['channels']['v']]
        j = refs[-1]
        rows = ops[j]['data']['shape'][0]
        if len(refs) == 1:
            # the only channel is (or may become) the index channel: do not fight with an index breach on this frame
            touched = spec.setdefault('_touched', [])
            if fi in touched:
                raise IndexError('frame already carries an index breach')
            touched.append(fi)
        if len(refs) == 1 and 'index_type' in f['attrs']:
            arr = (np.arange(rows) * 2).astype('<i2')
            ops[j]['data'] = model.array_spec_from(arr)
        else:
            ops[j]['data'] = {'dt': draw_signed(sel), 'shape': ops[j]['data']['shape'], 'pat': [3, 1]}
        ops[j].pop('cast', None)
    elif k == 'unframed':
        ops.append({'t': 'channel', 'name': 'LONELY', 'data': {'dt': '<f4', 'shape': [3], 'pat': [3, 1]}, 'attrs': {}})
    elif k == 'two-frames':
        f = ops[frames[0]]
        j = f['attrs']['channels']['v'][-1]['$ref']
        # (half of the time under the first frame's own name: frame names need not be unique)
        ops.append({'t': 'frame', 'name': f['name'] if sel % 2 else 'SECOND-USER',
                    'attrs': {'channels': {'v': [{'$ref': j}], 'r': 'kw'}}})
    elif k in ('nonuniform', 'index-type'):
        fi = frames[sel % len(frames)]
        touched = spec.setdefault('_touched', [])
        if fi in touched:
            raise IndexError('frame already carries an index breach')
        touched.append(fi)
        f = ops[fi]
        j = f['attrs']['channels']['v'][0]['$ref']
        rows = ops[j]['data']['shape'][0]
        if k == 'nonuniform':
            if rows < 3:
                raise IndexError('too few rows for a non-uniform index')
            vals = np.cumsum(np.arange(rows) % 3 + 1).astype('<f8')
            if sel % 3 == 2 and rows >= 4:
                # regular steps with a hole: a NaN among otherwise evenly spaced values is not a uniform index either
                vals = (100.0 + 0.5 * np.arange(rows)).astype('<f8')
                vals[1 + sel % (rows - 2)] = np.nan
            f['attrs']['index_type'] = {'v': 'BOREHOLE-DEPTH', 'r': 'kw'}
        else:
            vals = (np.arange(rows) * 0.5).astype('<f8')
            f['attrs']['index_type'] = {'v': ('MY-OWN-INDEX', 'BOREHOLE_DEPTH', 'NON_STANDARD')[sel % 3], 'r': 'kw'}
        ops[j]['data'] = model.array_spec_from(vals)
        ops[j].pop('cast', None)
        f['attrs'].pop('spacing', None)
        if k == 'nonuniform' and sel % 2:
            # a spacing given by the user does not make the index uniform: the mode must still reject the frame
            f['attrs']['spacing'] = {'v': 0.5, 'r': 'kw'}
    elif k == 'unit':
        ops[chans[sel % len(chans)]]['attrs']['units'] = {'v': ('furlong', 'METER', 'DEGREE_CELSIUS')[sel % 3], 'r': 'kw'}
    elif k == 'attr-unit':
        ops.append({'t': 'equipment', 'name': 'EQ-UNIT', 'attrs': {'height': {'v': 2.5, 'u': ('cubit', 'FOOT', 'INCH')[sel % 3], 'r': 'dict'}}})
    elif k == 'eq-type':
        ops.append({'t': 'equipment', 'name': 'EQ-TYPE', 'attrs': {'eq_type': {'v': ('Gizmo', 'TOOL', 'DEPTH_DEVICE')[sel % 3], 'r': 'kw'}}})
    elif k == 'eq-location':
        ops.append({'t': 'equipment', 'name': 'EQ-LOC', 'attrs': {'location': {'v': ('Moon', 'LOGGING_SYSTEM', 'RIG')[sel % 3], 'r': 'kw'}}})


def draw_signed(sel):
    return ['<i2', '<i4', '|i1'][sel % 3]


def check_hc_file(buf, spec):
    """Restrictions a file written inside the mode must satisfy (on the decoded file)."""
    out = []
    try:
        dec = read_file(buf)
    except FormatError as exc:
        return [('undecodable', exc.kind, str(exc))]
    if HC_NAME.fullmatch(dec.sul['set_identifier'].rstrip(' ')) is None:
        out.append(('hc-name', 'sul-id', repr(dec.sul['set_identifier'].rstrip(' '))))
    for dlf in dec.logical_files:
        used = {}
        for ri, s in dlf.sets:
            for o in s.objects:
                if s.type == 'FILE-HEADER':
                    hid = o.attrs['ID'].values[0].rstrip(' ')
                    if HC_NAME.fullmatch(hid) is None:
                        out.append(('hc-name', 'hdr-id', repr(hid)))
                    continue
                if HC_NAME.fullmatch(o.name[2]) is None:
                    out.append(('hc-name', 'object', f"{s.type}:{o.name[2]!r}"))
            if s.type == 'CHANNEL':
                for o in s.objects:
                    rc = o.attrs.get('REPRESENTATION-CODE')
                    if rc is not None and rc.values and rc.values[0] in (12, 13, 14):
                        out.append(('hc-signed-channel', 'repcode', f"channel {o.name[2]} code {rc.values[0]}"))
                    used.setdefault(o.name, 0)
                    u = o.attrs.get('UNITS')
                    if u is not None and u.values and u.values[0] not in ENUMS['Unit']:
                        out.append(('hc-enum', 'channel-units', repr(u.values[0])))
            if s.type == 'EQUIPMENT':
                for o in s.objects:
                    for lab, en in (('TYPE', 'EquipmentType'), ('LOCATION', 'EquipmentLocation')):
                        a = o.attrs.get(lab)
                        if a is not None and a.values and a.values[0] not in ENUMS[en] + ['Pane', 'Panel']:
                            out.append(('hc-enum', lab.lower(), repr(a.values[0])))
            for o in s.objects:
                for lab, a in o.attrs.items():
                    if a.units and a.units not in ENUMS['Unit']:
                        out.append(('hc-enum', 'attribute-units', f"{s.type}.{lab} units {a.units!r}"))
        for o, s, ri in dlf.objects_of_type('FRAME'):
            for cn in o.attrs['CHANNELS'].values or []:
                used[cn] = used.get(cn, 0) + 1
            it = o.attrs.get('INDEX-TYPE')
            if it is not None and it.values:
                if it.values[0] not in ENUMS['FrameIndexType'] + ['TIME']:
                    out.append(('hc-enum', 'index-type', repr(it.values[0])))
                rows = dlf.frame_rows.get(o.name, [])
                if len(rows) >= 3:
                    from vf.props.c13 import NP_OF_CODE, TOL
                    ch0 = dlf.find('CHANNEL', o.attrs['CHANNELS'].values[0])[0][0]
                    code = ch0.attrs['REPRESENTATION-CODE'].values[0]
                    col = [float(np.frombuffer(r.slots[0], dtype=NP_OF_CODE[code])[0]) for r in rows]
                    D = [b - a for a, b in zip(col, col[1:])]
                    med = float(np.median(D))
                    if not all(d == D[0] for d in D):
                        dev = float('inf') if med == 0 else max((1 - d / med) ** 2 for d in D)
                        if dev > TOL * (1 + 1e-3):
                            out.append(('hc-nonuniform-index', 'written-in-mode', f"frame {o.name[2]}: index "
                                                                                  f"differences {D[:6]}"))
        for cn, n in used.items():
            if n != 1:
                out.append(('hc-channel-frame-count', str(min(n, 2)), f"channel {cn} is in {n} frames"))
        # defaulted file-set numbers are the 1-based ordinal within the ORIGIN set
        spec_origins = [op for op in spec['lfs'][0]['ops'] if op['t'] == 'origin']
        dec_origins = [o for o, s, ri in dlf.objects_of_type('ORIGIN')]
        if len(spec_origins) == len(dec_origins):
            for k, (so, do) in enumerate(zip(spec_origins, dec_origins)):
                if 'file_set_number' not in so['attrs']:
                    fsn = do.attrs.get('FILE-SET-NUMBER')
                    if fsn is None or fsn.values != [k + 1]:
                        out.append(('hc-file-set-number', 'ordinal', f"origin {k + 1}: FILE-SET-NUMBER "
                                                                     f"{fsn.values if fsn else None}"))
    return out


class Boom(Exception):
    pass


class Stop(BaseException):
    """Leaves a block the way GeneratorExit / KeyboardInterrupt / SystemExit do: not an Exception."""


class C17(Property):
    id = 'C17'
    number = 17
    technique = ("model-based testing of mode histories: Hypothesis generates nested high_compatibility_mode blocks "
                 "(normal and exceptional exits, decorator form) interleaved with building and writing specifications "
                 "that are clean or carry 1-3 breaches from a 14-kind catalogue; oracles: flag restored after every "
                 "exit, clean => written and restrictions hold on the decoded file, breach => exception inside the mode, "
                 "and outside the mode the same input is written with WARNING records captured from the package logger")
    rule = ("cases: trees of depth <= 2 of write / block(exit normally or by exception) / decorated-function items; every "
            "write uses a freshly drawn HC-clean specification (upper-case names, unsigned/float data, uniform indices, "
            "standard enumerations, 1-3 origins with defaulted or explicit file-set numbers) plus 0-3 breaches; "
            "non-trivial = a nested or exceptional exit and >= 1 breach")
    assumptions = ("standard enumeration sets are the harness' own copies (intersection with what every implementation "
                   "accepts)", "warning message texts are not compared, only their presence per breach kind")

    def searches(self, ctx):
        n = 480 if ctx.tier == 'quick' else 6400
        from vf.core import stratified
        # free histories plus one stratum per breach kind, late-assignment kind and bad text (first write of the history)
        return [('mode-histories', histories(), n // ctx.nshards)] + \
            stratified('first', lambda f: histories(f), STRATA, n, ctx)

    def run(self, case, ctx):
        dw.check_import_location()
        from dliswriter import high_compatibility_mode, high_compatibility_mode_decorator
        from dliswriter.configuration import global_config
        viol = []
        labels = set()
        stats = {'nested': False, 'exc_exit': False, 'breach': False}

        def flag():
            return bool(global_config.high_compat_mode)

        def do_late(spec, inside, late):
            """Objects built in the other mode; a non-standard soft-enumeration value assigned in the current mode."""
            import contextlib
            other = contextlib.nullcontext() if inside else high_compatibility_mode()
            saved = flag()
            global_config.high_compat_mode = False      # build in the other mode, via the public context
            try:
                with other:
                    b = B.build(spec, ctx.scratch)
            except B.BuildError:
                global_config.high_compat_mode = saved
                return
            global_config.high_compat_mode = saved
            labels.add(('in:' if inside else 'out:') + late)
            stats['breach'] = True
            ops = spec['lfs'][0]['ops']
            try:
                with dw.capture_warnings() as cap:
                    if late == 'late-unit':
                        j = next(k for k, op in enumerate(ops) if op['t'] == 'channel')
                        b.items[(0, j)].units.value = 'furlong'
                    elif late == 'late-index-type':
                        j = next(k for k, op in enumerate(ops) if op['t'] == 'frame')
                        b.items[(0, j)].index_type.value = 'MY-OWN-INDEX'
                    elif late == 'late-eq-type':
                        j = next(k for k, op in enumerate(ops) if op['t'] == 'equipment')
                        b.items[(0, j)]._type.value = 'Gizmo'
                    else:
                        j = next(k for k, op in enumerate(ops) if op['t'] == 'equipment')
                        b.items[(0, j)].height.units = 'cubit'
                outcome = 'accepted'
            except StopIteration:
                return
            except Exception:
                outcome = 'raised'
            if inside and outcome == 'accepted':
                viol.append(Violation(f"breach-accepted-in-mode/{late}", "assigned inside the mode to an object built "
                                                                         "outside: no exception"))
            if not inside and outcome == 'raised':
                viol.append(Violation(f"rejected-outside-mode/{late}", "assigned outside the mode to an object built "
                                                                       "inside: raised"))
            if not inside and outcome == 'accepted' and not cap.records:
                viol.append(Violation(f"no-warning-outside-mode/{late}", "accepted outside the mode without a WARNING"))

        def do_again(spec, order, kinds):
            """One DLISFile built outside the mode, written on both sides of the boundary (write-time breaches only)."""
            labels.add('again:' + order + (':breach' if kinds else ':clean'))
            stats['breach'] = stats['breach'] or bool(kinds)
            try:
                b = B.build(spec, ctx.scratch)
            except B.BuildError:
                return
            kw = B.write_kwargs(spec)

            def write_once(in_mode):
                import contextlib
                with (high_compatibility_mode() if in_mode else contextlib.nullcontext()):
                    with dw.capture_warnings() as cap:
                        try:
                            b.df.write(ctx.path(), **kw)
                            return 'written', cap.records
                        except Exception as exc:
                            return 'raised:' + dw.exc_site(exc)[1], cap.records

            for n, in_mode in enumerate([False, True] if order == 'out-in' else [True, False]):
                oc, recs = write_once(in_mode)
                where = f"{order}/write{n + 1}"
                if in_mode and kinds and oc == 'written':
                    viol.append(Violation(f"breach-accepted-in-mode/{'+'.join(kinds)}/rewrite:{where}",
                                          f"the file written {'before outside' if n else 'first'} is accepted inside the mode"))
                if in_mode and not kinds and oc != 'written':
                    viol.append(Violation(f"clean-spec-rejected-in-mode/rewrite:{where}/{oc}", oc))
                if not in_mode and oc != 'written':
                    viol.append(Violation(f"rejected-outside-mode/{'+'.join(kinds) or 'clean'}/rewrite:{where}/{oc}", oc))
                if not in_mode and oc == 'written' and kinds and not recs:
                    viol.append(Violation(f"no-warning-outside-mode/{'+'.join(kinds)}/rewrite:{where}",
                                          "accepted outside the mode without a WARNING"))

        def do_write(spec, inside):
            spec = copy.deepcopy(spec)
            again = spec.pop('again', None)
            late = spec.pop('late', None)
            if late:
                spec.pop('breaches', None)
                return do_late(spec, inside, late)
            breaches = spec.pop('breaches', [])
            spec.pop('_touched', None)
            kinds = []
            for b in breaches:
                try:
                    apply_breach(spec, b)
                    kinds.append(b['k'])
                except (IndexError, KeyError, ZeroDivisionError):
                    continue
            spec.pop('_touched', None)
            kinds = sorted(set(kinds))
            if again and not inside and set(kinds) <= WRITE_TIME:
                return do_again(spec, again, kinds)
            for k in kinds:
                labels.add(('in:' if inside else 'out:') + k)
                stats['breach'] = True
            with dw.capture_warnings() as cap:
                r = B.build_and_write(spec, ctx.path(), ctx.scratch)
            if flag() != inside:
                viol.append(Violation('flag-changed-by-write/' + ('in' if inside else 'out'), 'mode flag changed'))
            if inside:
                if not kinds:
                    if r['outcome'] != 'written':
                        tn, site = dw.exc_site(r['exc'])
                        viol.append(Violation(f"clean-spec-rejected-in-mode/{tn}@{site}", str(r['exc'])[:300]))
                    else:
                        for k, w, d in check_hc_file(r['buf'], spec):
                            viol.append(Violation(f"restriction-not-enforced/{k}/{w}", d))
                else:
                    if r['outcome'] == 'written':
                        viol.append(Violation(f"breach-accepted-in-mode/{'+'.join(kinds)}",
                                              f"written inside the mode with breaches {kinds}"))
            else:
                if r['outcome'] != 'written':
                    tn, site = dw.exc_site(r['exc'])
                    viol.append(Violation(f"rejected-outside-mode/{'+'.join(kinds) or 'clean'}/{tn}@{site}",
                                          str(r['exc'])[:300]))
                elif kinds and len(cap.records) < 1:
                    cls = 'names' if all(k in NAME_BREACH for k in kinds) else '+'.join(kinds)
                    viol.append(Violation(f"no-warning-outside-mode/{cls}",
                                          f"breaches {kinds} written outside the mode without any WARNING record"))

        def run_seq(seq, inside, depth):
            for it in seq:
                if it['do'] == 'write':
                    do_write(it['spec'], inside)
                elif it['do'] == 'block':
                    before = flag()
                    if depth >= 1:
                        stats['nested'] = True
                    try:
                        with high_compatibility_mode():
                            if not flag():
                                viol.append(Violation('flag-not-set-in-context/block', 'flag False inside the context'))
                            run_seq(it['body'], True, depth + 1)
                            if it['exit'] == 'exception':
                                stats['exc_exit'] = True
                                raise Boom()
                            if it['exit'] == 'base-exception':
                                stats['exc_exit'] = True
                                labels.add('exit-by-base-exception')
                                raise Stop()
                    except (Boom, Stop):
                        pass
                    if flag() != before:
                        viol.append(Violation(f"flag-not-restored/block-{it['exit']}/depth{min(depth, 1)}",
                                              f"before {before}, after {flag()}"))
                else:
                    before = flag()

                    @high_compatibility_mode_decorator
                    def decorated():
                        if not flag():
                            viol.append(Violation('flag-not-set-in-context/decorator', 'flag False in decorated function'))
                        do_write(it['spec'], True)
                        if it.get('body'):
                            stats['nested'] = True
                            labels.add('decorated-calls-nested')
                            run_seq(it['body'], True, depth + 1)
                        if it['exit'] == 'exception':
                            stats['exc_exit'] = True
                            raise Boom()
                        if it['exit'] == 'base-exception':
                            stats['exc_exit'] = True
                            labels.add('exit-by-base-exception')
                            raise Stop()
                    try:
                        decorated()
                    except (Boom, Stop):
                        pass
                    if flag() != before:
                        viol.append(Violation(f"flag-not-restored/decorator-{it['exit']}", f"before {before}, after {flag()}"))

        start = flag()
        try:
            run_seq(case['seq'], start, 0)
        finally:
            global_config.high_compat_mode = False     # never let a leak contaminate the next case
        nt = (stats['nested'] or stats['exc_exit']) and stats['breach']
        for k in ('nested', 'exc_exit'):
            if stats[k]:
                labels.add(k)
        return Result(viol, sorted(labels), nt, 'done',
                      sample={'shape': summarize(case['seq'])})


def summarize(seq):
    out = []
    for it in seq:
        if it['do'] == 'write':
            out.append('w[' + ','.join(b['k'] for b in it['spec'].get('breaches', [])) + (it['spec'].get('late') or '') + (('|again:' + it['spec']['again']) if it['spec'].get('again') else '') + ']')
        elif it['do'] == 'block':
            out.append({'block:' + it['exit']: summarize(it['body'])})
        else:
            out.append({'dec:' + it['exit'] + '[' + ','.join(b['k'] for b in it['spec'].get('breaches', [])) + ']': summarize(it.get('body') or [])})
    return out


PROP = C17()
