"""C02 - Segmentation is lossless, ordered and correctly bracketed."""
from vf.core import Property, Result, Violation
from vf import synth
from vf.props import synthgen


class C02(Property):
    id = 'C02'
    number = 2
    fuzz_targets = {'fuzz_segments': 30000}      # atheris campaign in the thorough tier (crashes are replayed through run())
    technique = ("generated-input search (bounded-exhaustive (capacity, L) window + Hypothesis record sequences "
                 "and file specifications); oracle = reassembly by an independent reader compared with the bodies "
                 "given to the writer (synthetic) or reported by the guarded lr-tap (end-to-end)")
    rule = ("cases as C01; the oracle reassembles segments (headers and flagged pad bytes dropped) and compares "
            "count, order, EFLR flag, type and every body byte with what the writer was given, plus "
            "predecessor/successor bracketing; non-trivial = at least one record spans >= 2 segments; distinct by "
            "case digest")
    assumptions = ("record bodies are position-dependent byte patterns, so moved/dropped/duplicated bytes are visible",
                   "end-to-end ground truth is the lr-tap hook (bytes handed to the segmenter)")

    def enumerate(self, ctx):
        return synthgen.enumerate_synth(ctx)

    def enumerated_exhaustive_claim(self, tier):
        return True

    def exhaustive_scope(self, tier):
        return synthgen.exhaustive_scope(tier)

    def searches(self, ctx):
        n = 6000 if ctx.tier == 'quick' else 60000
        out = [('synth-sequences', synthgen.synth_cases(), n // ctx.nshards)]
        try:
            from vf.props import e2e
            ne = 1600 if ctx.tier == 'quick' else 24000
            out.append(('end-to-end', e2e.layout_specs(), ne // ctx.nshards))
        except ImportError:
            pass
        return out

    def run(self, case, ctx):
        if case.get('kind') == 'spec':
            from vf.props import e2e
            return e2e.run_c02(case, ctx)
        r = synth.run_synth(case, ctx.path())
        cap = case['vrl'] - 8
        classes = sorted({synth.length_class(x['L'], cap) for x in case['recs']})
        labels = ['synth'] + ['len:' + c for c in classes]
        if r['outcome'] != 'written':
            return Result([], labels, False, r['outcome'] + ':' + type(r['exc']).__name__)
        problems, vrs = synth.check_layout(r['buf'], case['vrl'], None)
        if vrs is None:
            # physically malformed: C01's business, but a file that cannot be reassembled is not lossless either
            return Result([Violation(f"unframed/{problems[0][0]}", problems[0][1])], labels, False, 'written')
        problems, recs = synth.check_lossless(vrs, r['given'])
        cls = '+'.join(classes)
        viol = [Violation(f"lossless/{k}/{cls if len(classes) == 1 else 'mixed'}", d) for k, d in problems]
        multi = bool(recs) and any(len(x.segments) > 1 for x in recs)
        if multi:
            labels.append('multi-segment-record')
        if recs and any(len(x.segments) > 1 and synth.length_class(len(x.body), cap) == 'short-remainder'
                        for x in recs):
            labels.append('shortened-segment')
        return Result(viol, labels, multi, 'written',
                      sample={'vrl': case['vrl'], 'records': [(int(e), t, len(b)) for e, t, b in r['given']],
                              'segments_per_record': [len(x.segments) for x in (recs or [])]})


PROP = C02()
