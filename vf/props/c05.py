"""C05 - Metadata fidelity: what the user sets is what a reader gets."""
from vf.core import Property, Result, Violation
from vf.spec.strategies import Profile, file_specs
from vf.spec.expect import Expectation
from vf.spec.table import TYPES
from vf.spec import compare
from vf.props import specrun
from vf.props.e2e import outcome_label, ALL_META

ROUTES = ('kw', 'dict', 'setup', 'later')


def profile():
    return Profile(vrl=[256, 1024, 8192, 16384], max_frames=2, max_channels=3, max_rows=6, max_width=4,
                   meta_kinds=ALL_META + ('no_format',), max_meta=7, attr_routes=ROUTES, units=True, unit_enums=True,
                   long_text=20000, counts_over_127=True, full_attrs=True, max_origins=2,
                   origin_position=('first', 'middle', 'last'), hdr_variants=True, min_row_bytes=0)


def sig_of(kind, where, detail, spec):
    if kind == 'attr-units':
        return f"attr-units/{'enum-member' if 'Unit.' in detail or 'assigned' in detail and _enum_units(spec, where) else 'str'}"
    return f"{kind}/{where}"


def _enum_units(spec, where):
    k, _, lab = where.partition('.')
    for lf in spec['lfs']:
        for op in lf['ops']:
            if op['t'] != k:
                continue
            for kw, a in (op.get('attrs') or {}).items():
                if TYPES[k]['attrs'][kw].label == lab and isinstance(a.get('u'), dict):
                    return True
    return False


class C05(Property):
    id = 'C05'
    number = 5
    technique = ("Hypothesis-generated specifications over every add_* keyword and assignment route; oracle: objects "
                 "decoded by the independent reader compared with an expected model derived from the specification and "
                 "a frozen keyword->label table (never from dliswriter objects)")
    rule = ("cases: 1 logical file with origin(s), frames and up to 7 other objects of all 21 add_* kinds, random "
            "attribute subsets, value domains per kind (code-range integers, floats incl. extremes, ASCII up to 20000 "
            "chars, aware/naive date-times, enum members and free strings, single/multi/nested values, units as str or "
            "enum member) x 4 assignment routes; non-trivial = an object with >= 3 assigned attributes incl. one "
            "multi-valued or with units")
    assumptions = ("table vf/spec/table.py (labels, kinds, fixed codes) reviewed against RP66 V1 ch. 5-6",
                   "runs pin TZ so naive date-times have a defined meaning",
                   "-0.0 == 0.0 and NaN == NaN count as equal values")

    def __init__(self):
        self.triples = {}

    def extra_stats(self):
        return self.triples

    def searches(self, ctx):
        n = 3200 if ctx.tier == 'quick' else 40000
        multi = profile()
        multi.max_lfs = 3
        multi.interleave = True
        multi.lf_distinct_sets = False      # logical files may use the same (default) set names
        multi.max_meta = 4
        multi.long_text = 2000
        from hypothesis import strategies as st
        from vf.core import stratified

        def with_kind(kind):
            p = profile()
            p.must_kind = kind
            return file_specs(p)
        # half of the budget: one stratum per object type, so that no type's attributes depend on how the metadata kinds
        # happen to be spread
        return [('metadata', st.one_of(file_specs(profile()), file_specs(profile()), file_specs(profile()),
                                       file_specs(multi)), (n // 2) // ctx.nshards)] + \
            stratified('type', with_kind, ALL_META + ('no_format',), n // 2, ctx)

    def run(self, spec, ctx):
        r, dec, ferr = specrun.write_and_decode(spec, ctx)
        nt = False
        for lf in spec['lfs']:
            for op in lf['ops']:
                at = op.get('attrs') or {}
                if len(at) >= 3 and any(isinstance(a.get('v'), list) or a.get('u') for a in at.values()):
                    nt = True
        labels = []
        if r['outcome'] != 'written':
            return Result([], labels, False, outcome_label(r))
        for lf in spec['lfs']:
            for op in lf['ops']:
                for kw, a in (op.get('attrs') or {}).items():
                    key = f"{op['t']}.{kw}:{a.get('r', 'kw')}"
                    self.triples[key] = self.triples.get(key, 0) + 1
        if ferr is not None:
            return Result([specrun.fmt_violation(ferr)], labels, False, 'written')
        exp = Expectation(spec)
        viol = []
        for i, dlf in enumerate(dec.logical_files):
            opmap, probs = compare.map_objects(dlf, exp, i)
            probs = probs + compare.check_metadata(dlf, exp, i, opmap)
            for k, w, d in probs:
                if k.startswith('excluded-'):
                    labels.append(k)
                    continue
                viol.append(Violation(sig_of(k, w, d, spec), d))
        kinds = sorted({op['t'] for lf in spec['lfs'] for op in lf['ops']})
        return Result(viol, labels, nt, 'written',
                      sample={'kinds': kinds, 'n_attrs': sum(len(op.get('attrs') or {}) for lf in spec['lfs']
                                                             for op in lf['ops'])})

    def self_check(self, merged, tier):
        # quick tier: every (method, keyword) through at least one route (the per-type strata make that independent of
        # luck: the rarest keyword is seen > 10 times); thorough tier: through every route
        have = merged['extra']
        missing = []
        for k, t in TYPES.items():
            for kw in t['attrs']:
                routes = ROUTES if tier == 'thorough' else ('any',)
                for r in routes:
                    if r == 'any':
                        if not any(have.get(f"{k}.{kw}:{x}") for x in ROUTES):
                            missing.append(f"{k}.{kw}")
                    elif not have.get(f"{k}.{kw}:{r}"):
                        if k in ('frame', 'splice', 'parameter', 'computation') and kw in ('channels', 'index_type', 'zones', 'input_channels', 'output_channel', 'source') and r != 'kw':
                            continue
                        if kw in ('file_set_number', 'creation_time') and r != 'kw':
                            continue
                        missing.append(f"{k}.{kw}:{r}")
        if missing:
            return [f"generator never exercised {len(missing)} (method, keyword[, route]) combinations: {missing[:12]}"]
        return []


PROP = C05()
