"""C13 - Frame index metadata is truthful for the rows written."""
import math

import numpy as np
from hypothesis import strategies as st

from vf import dw
from vf.core import Property, Result, Violation
from vf.rp66 import FormatError, read_file
from vf.rp66.codes import FIXED_SIZE
from vf.spec import build as B, compare, model
from vf.spec.expect import Expectation
from vf.spec.strategies import draw_datetime, DTYPES
from vf.props.e2e import outcome_label

NP_OF_CODE = {12: '>i1', 13: '>i2', 14: '>i4', 15: '>u1', 16: '>u2', 17: '>u4', 2: '>f4', 7: '>f8'}
TOL = 0.001


@st.composite
def index_values(draw, code, rows):
    """Index column values (as Python numbers) of a given pattern, inside the dtype's range."""
    dt = np.dtype(code)
    pattern = draw(st.sampled_from(['uniform', 'uniform', 'uniform-dec', 'nearly', 'monotone', 'monotone-dec',
                                    'constant', 'random', 'outside-tol', 'nan-hides-turn', 'tiny-steps']))
    if dt.kind in 'iu':
        info = np.iinfo(dt)
        lo, hi = int(info.min), int(info.max)
        span = hi - lo
        step = draw(st.integers(1, max(1, min(50, span // max(rows, 1)))))
        edge = draw(st.sampled_from(['low', 'high', 'mid', 'wide']))
        if edge == 'wide':
            step = max(1, span // max(rows, 1) - draw(st.integers(0, 3)))
        total = step * (rows - 1)
        if total > span:
            step, total = 1, rows - 1
        if total > span:
            return [lo] * rows, 'constant'
        start = {'low': lo, 'high': hi - total, 'mid': lo + (span - total) // 2, 'wide': lo}[edge]
        if pattern in ('uniform', 'nearly', 'outside-tol'):
            vals = [start + i * step for i in range(rows)]
        elif pattern == 'uniform-dec':
            vals = [start + total - i * step for i in range(rows)]
        elif pattern in ('monotone', 'monotone-dec'):
            vals = [start]
            for _ in range(rows - 1):
                vals.append(min(hi, vals[-1] + draw(st.integers(0, max(1, 2 * step)))))
            if pattern == 'monotone-dec':
                vals = vals[::-1]
        elif pattern == 'constant':
            vals = [start] * rows
        else:
            vals = [draw(st.integers(lo, hi)) for _ in range(rows)]
        return vals, pattern
    start = draw(st.one_of(st.floats(-1e6, 1e6), st.sampled_from([0.0, 100.0, -2500.5, 1e-3, 1e12])))
    step = draw(st.one_of(st.floats(0.001, 1000.0), st.sampled_from([0.1, 0.5, 1.0, 0.1524, 1e-6, 12345.678])))
    if pattern in ('uniform', 'uniform-dec'):
        vals = [start + i * step for i in range(rows)]
        if pattern == 'uniform-dec':
            vals = vals[::-1]
    elif pattern == 'nearly':
        vals = [start + i * step * (1 + draw(st.floats(-0.01, 0.01)) * (i % 2)) for i in range(rows)]
    elif pattern == 'outside-tol':
        vals = [start + i * step for i in range(rows)]
        if rows >= 3:
            k = draw(st.integers(1, rows - 1))
            bump = step * draw(st.sampled_from([0.04, 0.1, 0.5, -0.05]))
            vals = [v + (bump if i >= k else 0.0) for i, v in enumerate(vals)]
    elif pattern in ('monotone', 'monotone-dec'):
        vals = [start]
        for _ in range(rows - 1):
            vals.append(vals[-1] + draw(st.floats(0.0, 3 * step)))
        if pattern == 'monotone-dec':
            vals = vals[::-1]
    elif pattern == 'constant':
        vals = [start] * rows
    elif pattern == 'tiny-steps' and rows >= 3:
        # clearly irregular steps of a very small absolute size (a time index in seconds moving by nanoseconds): the
        # documented tolerance is relative, so this is as non-uniform as the same pattern at any other scale
        scale = draw(st.sampled_from([1e-9, 1e-10, 1e-12, 1e-8]))
        sign = draw(st.sampled_from([1.0, -1.0]))
        acc = draw(st.sampled_from([0.0, 1.0, 1e-3]))
        vals = []
        for i in range(rows):
            vals.append(acc)
            acc += sign * scale * draw(st.sampled_from([1, 3, 1, 4, 2, 6]))
        return vals, 'tiny-steps'
    elif pattern == 'nan-hides-turn' and rows >= 4:
        # rising (or falling) values, a NaN, then a restart on the other side: every finite difference has one sign, yet
        # the finite values are not monotone
        sign = draw(st.sampled_from([1.0, -1.0]))
        k = draw(st.integers(2, rows - 2))
        vals = [start + sign * i * step for i in range(k)] + [float('nan')]
        restart = start - sign * step * draw(st.integers(1, 5))
        vals += [restart + sign * i * step for i in range(rows - k - 1)]
        return vals, 'nan-hides-turn'
    else:
        vals = [draw(st.floats(-1e6, 1e6)) for _ in range(rows)]
    if draw(st.integers(0, 24)) == 0 and rows >= 2:
        vals[draw(st.integers(0, rows - 1))] = float('nan')
        pattern += '+nan'
    return vals, pattern


@st.composite
def cases(draw, two_writes=False):
    rows = draw(st.sampled_from([1, 1, 2, 3, 4, 5, 8, 12, 20]))
    code = draw(st.sampled_from(DTYPES))
    bo = '|' if code.endswith('1') else draw(st.sampled_from(['<', '>']))
    vals, pattern = draw(index_values(code, rows))
    with np.errstate(all='ignore'):
        arr = np.array(vals, dtype=np.float64 if code[0] == 'f' else object).astype(bo + code)
    indexed = draw(st.integers(0, 5)) != 0
    units = draw(st.sampled_from([None, 'm', 's', 'ft']))
    if not indexed and not two_writes and draw(st.booleans()):
        # no index type: the first channel is an ordinary channel and may hold several samples per row
        arr = np.repeat(arr.reshape(rows, 1), draw(st.integers(2, 4)), axis=1)
    ops = [{'t': 'origin', 'name': 'O', 'attrs': {'file_set_number': {'v': 1, 'r': 'kw'},
                                                   'creation_time': {'v': {'$dt': '2001-02-03T04:05:06', 'tz': 0},
                                                                     'r': 'kw'}}},
           {'t': 'channel', 'name': 'INDEX', 'data': model.array_spec_from(arr),
            'attrs': ({'units': {'v': units, 'r': 'kw'}} if units else {})},
           {'t': 'channel', 'name': 'PAYLOAD', 'data': {'dt': '<f8', 'shape': [rows], 'pat': [5, 1]}, 'attrs': {}}]
    ops[1]['data']['dt'] = bo + code
    fattrs = {'channels': {'v': [{'$ref': 1}, {'$ref': 2}], 'r': 'kw'}}
    if indexed:
        fattrs['index_type'] = {'v': draw(st.sampled_from(['BOREHOLE-DEPTH', 'VERTICAL-DEPTH', 'NON-STANDARD'])),
                                'r': 'kw'}
    user = {}
    if draw(st.integers(0, 3)) == 0:
        for k in ('index_min', 'index_max', 'spacing', 'direction'):
            if draw(st.integers(0, 2)) == 0:
                if k == 'direction':
                    user[k] = {'v': draw(st.sampled_from(['INCREASING', 'DECREASING'])), 'r': 'kw'}
                else:
                    user[k] = {'v': draw(st.floats(-1000, 1000)), 'u': None, 'r': 'kw'}
    fattrs.update(user)
    ops.append({'t': 'frame', 'name': 'MAIN', 'attrs': fattrs})
    spec = {'kind': 'spec', 'sul': {'vrl': 8192}, 'lfs': [{'hdr': {}, 'ops': ops}],
            'write': {'source': draw(st.sampled_from(['inline', 'dict']))}, 'pattern': pattern}
    if rows > 1 and draw(st.integers(0, 2)) == 0:
        f = draw(st.integers(0, rows - 1))
        t = draw(st.one_of(st.none(), st.integers(f + 1, rows)))
        spec['write']['from'] = f
        if t is not None:
            spec['write']['to'] = t
    if two_writes:
        spec['write']['source'] = 'dict'
        f = draw(st.integers(0, rows - 1))
        t = draw(st.integers(f + 1, rows))
        spec['second'] = {'from': f, 'to': t}
        if draw(st.booleans()):
            vals2, _ = draw(index_values(code, rows))
            with np.errstate(all='ignore'):
                arr2 = np.array(vals2, dtype=np.float64 if code[0] == 'f' else object).astype(bo + code)
            spec['second']['index_data'] = model.array_spec_from(arr2)
            spec['second']['index_data']['dt'] = bo + code
        if draw(st.integers(0, 2)) == 0:
            # values the user assigns between the two writes (they must be written unchanged by the second write)
            ub = {}
            for k in ('index_min', 'index_max', 'spacing', 'direction'):
                if k not in user and draw(st.integers(0, 2)) == 0:
                    ub[k] = draw(st.sampled_from(['INCREASING', 'DECREASING'])) if k == 'direction' else \
                        draw(st.floats(-1000, 1000))
            if ub:
                spec['second']['user_between'] = ub
        m = draw(st.integers(0, 5))
        if m < 2:
            # the first write is one that is rejected inside the frame set-up, after index values of *other* data
            # were looked at: a column vector (n, 1) as index data / an unevenly spaced index inside high-compatibility
            # mode. Nothing of it may show in the file written afterwards.
            spec['second']['first_fails'] = ['index-2d', 'hc-uneven'][m]
    return spec


@st.composite
def multi_cases(draw):
    """2-3 frames, each with its own index channel, in one or two logical files: every frame is judged on its own."""
    nfr = draw(st.integers(2, 3))
    nlf = draw(st.sampled_from([1, 1, 2]))
    lfs = [{'hdr': {'id': f'LF{i}'}, 'ops': [
        {'t': 'origin', 'name': f'O{i}', 'attrs': {'file_set_number': {'v': 1, 'r': 'kw'},
                                                  'creation_time': {'v': {'$dt': '2001-02-03T04:05:06', 'tz': 0},
                                                                    'r': 'kw'}}}]} for i in range(nlf)]
    frames = []
    for k in range(nfr):
        i = k % nlf
        ops = lfs[i]['ops']
        rows = draw(st.sampled_from([1, 2, 3, 5, 8, 12]))
        code = draw(st.sampled_from(DTYPES))
        bo = '|' if code.endswith('1') else draw(st.sampled_from(['<', '>']))
        vals, pattern = draw(index_values(code, rows))
        with np.errstate(all='ignore'):
            arr = np.array(vals, dtype=np.float64 if code[0] == 'f' else object).astype(bo + code)
        aj = model.array_spec_from(arr)
        aj['dt'] = bo + code
        units = draw(st.sampled_from([None, 'm', 's']))
        ops.append({'t': 'channel', 'name': f'INDEX{k}', 'data': aj,
                    'attrs': ({'units': {'v': units, 'r': 'kw'}} if units else {})})
        ops.append({'t': 'channel', 'name': f'PAYLOAD{k}', 'data': {'dt': '<f4', 'shape': [rows], 'pat': [5, k]}, 'attrs': {}})
        fattrs = {'channels': {'v': [{'$ref': len(ops) - 2}, {'$ref': len(ops) - 1}], 'r': 'kw'}}
        indexed = draw(st.integers(0, 4)) != 0
        if indexed:
            fattrs['index_type'] = {'v': draw(st.sampled_from(['BOREHOLE-DEPTH', 'TIME', 'NON-STANDARD'])), 'r': 'kw'}
        user = {}
        if draw(st.integers(0, 4)) == 0:
            kk = draw(st.sampled_from(['index_min', 'index_max', 'spacing']))
            user[kk] = {'v': draw(st.sampled_from([0.0, 0, -5.5, 1000.0])), 'u': None,
                        'r': draw(st.sampled_from(['kw', 'dict', 'setup', 'later']))}
        fattrs.update(user)
        ops.append({'t': 'frame', 'name': f'FRAME{k}', 'attrs': fattrs})
        frames.append({'lf': i, 'name': f'FRAME{k}', 'indexed': indexed, 'user': user, 'pattern': pattern, 'dtype': code})
    return {'kind': 'spec', 'sul': {'vrl': 8192}, 'lfs': lfs, 'write': {'source': 'inline'}, 'multi': frames}


def judge_frame(dlf, fo, user, indexed):
    """Validity predicate on one decoded FRAME object vs. the rows decoded from the same file."""
    out = []
    rows = dlf.frame_rows.get(fo.name, [])
    chans = fo.attrs['CHANNELS'].values
    ch0 = dlf.find('CHANNEL', chans[0])[0][0]
    code = ch0.attrs['REPRESENTATION-CODE'].values[0]
    col = np.array([np.frombuffer(r.slots[0], dtype=NP_OF_CODE[code])[0] for r in rows])
    is_int = NP_OF_CODE[code][1] in 'iu'
    exact = [int(v) for v in col] if is_int else [float(v) for v in col]
    info = np.iinfo(np.dtype(NP_OF_CODE[code][1:])) if is_int else None

    def val(label):
        a = fo.attrs.get(label)
        if a is None or a.absent or a.values is None:
            return None
        return a.values[0]

    imin, imax, spacing, direction = val('INDEX-MIN'), val('INDEX-MAX'), val('SPACING'), val('DIRECTION')
    for k, lab, got in (('index_min', 'INDEX-MIN', imin), ('index_max', 'INDEX-MAX', imax), ('spacing', 'SPACING', spacing),
                        ('direction', 'DIRECTION', direction)):
        if k in user:
            want = user[k]['v']
            if got is None or not (got == want or (isinstance(want, float) and isinstance(got, float)
                                                   and math.isnan(want) and math.isnan(got))):
                out.append(('user-value-changed', lab, f"{lab} given {want!r}, file has {got!r}"))
    if not indexed:
        if 'index_min' not in user and imin != 1:
            out.append(('unindexed-index-min', 'INDEX-MIN', f"INDEX-MIN {imin!r}, expected 1"))
        if 'index_max' not in user and imax != len(rows):
            out.append(('unindexed-index-max', 'INDEX-MAX', f"INDEX-MAX {imax!r}, {len(rows)} rows written"))
        return out
    has_nan = (not is_int) and any(math.isnan(v) for v in exact)
    finite = [v for v in exact if not (isinstance(v, float) and math.isnan(v))]
    for k, lab, got, fn in (('index_min', 'INDEX-MIN', imin, min), ('index_max', 'INDEX-MAX', imax, max)):
        if k in user:
            continue
        if got is None:
            out.append(('index-extreme-absent', lab, f"{lab} absent for an indexed frame"))
            continue
        ok = False
        if has_nan:
            ok = (isinstance(got, float) and math.isnan(got)) or (finite and got == fn(finite))
        else:
            ok = got == fn(exact)
        if not ok:
            out.append(('index-extreme-wrong', lab, f"{lab} = {got!r}, written index column has "
                                                    f"{fn(finite) if finite else 'only NaN'} (rows {len(rows)})"))
    D = [exact[i + 1] - exact[i] for i in range(len(exact) - 1)]
    representable = True
    if is_int and D:
        representable = all(info.min <= d <= info.max for d in D)
    tag = 'diff-representable' if representable else 'diff-not-representable-in-index-dtype'
    if 'spacing' in user:
        return out
    if has_nan:
        # differences involving NaN: uniformity is undefined and nothing is demanded - but a DIRECTION that is written
        # must at least not be contradicted by the finite values taken in row order
        if 'direction' not in user and len(finite) >= 2:
            fd = [finite[i + 1] - finite[i] for i in range(len(finite) - 1)]
            if direction == 'INCREASING' and any(d < 0 for d in fd):
                out.append(('direction-contradicted-by-values', 'with-nan', f"DIRECTION INCREASING, finite values {finite[:8]}"))
            if direction == 'DECREASING' and any(d > 0 for d in fd):
                out.append(('direction-contradicted-by-values', 'with-nan', f"DIRECTION DECREASING, finite values {finite[:8]}"))
        return out
    if spacing is not None and isinstance(spacing, float) and math.isnan(spacing):
        out.append(('spacing-nan', 'single-row' if not D else tag, f"SPACING is NaN for NaN-free index {exact[:6]}"))
        return out
    if not D:
        if spacing is not None:
            out.append(('spacing-without-differences', 'single-row', f"SPACING = {spacing!r} for a single row"))
        return out
    med = float(np.median(np.array(D, dtype=np.float64)))
    all_equal = all(d == D[0] for d in D)
    if all_equal:
        dev_max = 0.0
    elif med == 0:
        dev_max = math.inf
    else:
        try:
            dev_max = max((1 - d / med) ** 2 for d in D)
        except OverflowError:
            dev_max = math.inf
    uniform = all_equal or dev_max < TOL * (1 - 1e-3)
    nonuniform = (not all_equal) and (med == 0 or dev_max > TOL * (1 + 1e-3))
    mono_inc = all(d >= 0 for d in D) and any(d > 0 for d in D)
    mono_dec = all(d <= 0 for d in D) and any(d < 0 for d in D)
    if spacing is not None:
        if nonuniform:
            out.append(('spacing-for-nonuniform-index', tag, f"SPACING = {spacing!r} but differences {D[:6]} deviate "
                                                             f"from the median {med} beyond the tolerance"))
        else:
            ref = float(D[0]) if all_equal else med
            if ref == 0:
                ok = spacing == 0
            else:
                ok = abs(spacing - ref) <= 1e-5 * abs(ref) and (spacing > 0) == (ref > 0)
            if not ok:
                out.append(('spacing-value', tag, f"SPACING = {spacing!r}, consecutive differences are {D[:6]}"))
    else:
        # SPACING absent (the statement only says when it may be present): then DIRECTION must carry the monotonic sense
        if 'direction' not in user:
            if mono_inc and direction != 'INCREASING':
                out.append(('direction-wrong', tag, f"index is increasing, DIRECTION = {direction!r}"))
            elif mono_dec and direction != 'DECREASING':
                out.append(('direction-wrong', tag, f"index is decreasing, DIRECTION = {direction!r}"))
            elif not mono_inc and not mono_dec and direction is not None:
                out.append(('direction-for-non-monotone', tag, f"DIRECTION = {direction!r} for differences {D[:6]}"))
    return out


class C13(Property):
    id = 'C13'
    number = 13
    technique = ("Hypothesis-generated index channels (8 dtypes, 9 value patterns near the dtype's range, windows, "
                 "user-supplied values) and two-write histories on one DLISFile; validity predicate relating the decoded "
                 "FRAME attributes to the index column decoded from the same file")
    rule = ("cases: one frame whose first channel follows a drawn pattern (uniform, decreasing, nearly uniform, outside "
            "tolerance, monotone, constant, random, with NaN; integer values placed so that differences may exceed the "
            "dtype's range), 1-20 rows, optional window, optional user-supplied INDEX-MIN/MAX/SPACING/DIRECTION, with or "
            "without index type; second family: write(window1) then write(window2[, other data]) on one DLISFile, second "
            "file judged; third family: 2-3 frames in 1-2 logical files, each with its own index channel and judged "
            "on its own; non-trivial = indexed frame with >= 3 rows whose dtype is integer or whose spacing is "
            "non-uniform, or a second write")
    assumptions = ("documented tolerance: squared relative deviation from the median < 0.001, with a 0.1 % don't-care "
                   "band around the threshold", "differences involving NaN are not judged")

    def searches(self, ctx):
        n = 6400 if ctx.tier == 'quick' else 80000
        m = 480 if ctx.tier == 'quick' else 6400
        return [('index-arrays', cases(False), n // ctx.nshards), ('two-writes', cases(True), m // ctx.nshards),
                ('several-frames', multi_cases(), m // ctx.nshards)]

    def run_multi(self, spec, ctx):
        spec = dict(spec)
        frames = spec.pop('multi')
        labels = ['several-frames', f"lfs:{len(spec['lfs'])}"] + ['pattern:' + f['pattern'] for f in frames]
        r = B.build_and_write(spec, ctx.path(), ctx.scratch)
        if r['outcome'] != 'written':
            tn, site = dw.exc_site(r['exc'])
            return Result([], labels, False, f"raised:{tn}@{site}")
        try:
            dec = read_file(r['buf'])
        except FormatError as exc:
            return Result([Violation(f"undecodable/{exc.kind}", str(exc))], labels, False, 'written')
        viol = []
        for pos, f in enumerate(frames):
            dlf = dec.logical_files[f['lf']]
            fos = [o for o, s_, ri in dlf.objects_of_type('FRAME') if o.name[2] == f['name']]
            if len(fos) != 1:
                viol.append(Violation('several-frames/frame-missing', f"{f['name']} found {len(fos)} times"))
                continue
            which = 'last-frame' if pos == len(frames) - 1 else 'earlier-frame'
            for k, wh, d in judge_frame(dlf, fos[0], f['user'], f['indexed']):
                viol.append(Violation(f"several-frames/{k}/{which}", f"{f['name']}: {d}"))
        return Result(viol, labels, True, 'written', sample={'frames': [(f['name'], f['dtype'], f['pattern'], f['indexed'])
                                                                        for f in frames]})

    def run(self, spec, ctx):
        dw.check_import_location()
        if 'multi' in spec:
            return self.run_multi(spec, ctx)
        spec = dict(spec)
        pattern = spec.pop('pattern', '?')
        second = spec.pop('second', None)
        fop = spec['lfs'][0]['ops'][3]
        indexed = 'index_type' in fop['attrs']
        user = {k: v for k, v in fop['attrs'].items() if k in ('index_min', 'index_max', 'spacing', 'direction')}
        code = spec['lfs'][0]['ops'][1]['data']['dt'][1:]
        rows = spec['lfs'][0]['ops'][1]['data']['shape'][0]
        labels = ['pattern:' + pattern, 'dtype:' + code, 'indexed' if indexed else 'unindexed']
        if user:
            labels.append('user-supplied')
        if second:
            labels.append('second-write')
        w = spec.get('write') or {}
        nrows = (w.get('to') or rows) - (w.get('from') or 0)
        nt = bool(second) or (indexed and nrows >= 3 and (code[0] in 'iu' or pattern not in ('uniform', 'uniform-dec',
                                                                                              'constant')))
        try:
            b = B.build(spec, ctx.scratch)
            data = B.make_source(spec, b, ctx.scratch)
            kw = B.write_kwargs(spec)
            if data is not None:
                kw['data'] = data
            path = ctx.path()
            ff = (second or {}).get('first_fails')
            if ff:
                labels.append('first-write-rejected:' + ff)
                base = np.asarray(data['INDEX'], dtype=np.float64)
                other = (np.sort(base) * 0 + np.arange(len(base)) ** 2 * 3.0 + 5000.0)
                kw1 = dict(kw, data=dict(data, INDEX=(other.reshape(-1, 1) if ff == 'index-2d' else other)))
                kw1.pop('from_idx', None)
                kw1.pop('to_idx', None)
                import contextlib
                from dliswriter import high_compatibility_mode
                from dliswriter.configuration import global_config
                try:
                    with (high_compatibility_mode() if ff == 'hc-uneven' else contextlib.nullcontext()):
                        b.df.write(path, **kw1)
                    labels.append('first-write-not-rejected')
                except Exception:
                    pass
                finally:
                    global_config.high_compat_mode = False
            else:
                b.df.write(path, **kw)
            first_vals = None
            if second and not ff:
                try:
                    with open(path, 'rb') as f:
                        d1 = read_file(f.read())
                    f1 = d1.logical_files[0].objects_of_type('FRAME')[0][0]
                    first_vals = {lab: (a.values[0] if a.values else None) for lab, a in f1.attrs.items()
                                  if not a.absent and a.values is not None}
                except Exception:
                    first_vals = None
            if second:
                kw2 = dict(kw)
                kw2.pop('from_idx', None)
                kw2.pop('to_idx', None)
                kw2['from_idx'] = second['from']
                kw2['to_idx'] = second['to']
                for k, v in (second.get('user_between') or {}).items():
                    getattr(b.items[(0, 3)], k).value = v
                    user[k] = {'v': v}
                if 'index_data' in second:
                    data2 = dict(data)
                    data2['INDEX'] = model.make_array(second['index_data'])
                    kw2['data'] = data2
                path = ctx.path()
                b.df.write(path, **kw2)
        except Exception as exc:
            tn, site = dw.exc_site(getattr(exc, 'exc', exc))
            return Result([], labels, False, f"raised:{tn}@{site}")
        with open(path, 'rb') as f:
            buf = f.read()
        try:
            dec = read_file(buf)
        except FormatError as exc:
            return Result([Violation(f"undecodable/{exc.kind}", str(exc))], labels, False, 'written')
        dlf = dec.logical_files[0]
        fo = dlf.objects_of_type('FRAME')[0][0]
        probs = judge_frame(dlf, fo, user, indexed)
        viol = []
        for k, wh, d in probs:
            if second:
                # a value of the second file that is simply the one derived at the first write is the known
                # "derived values persist on the frame object" finding; anything else is reported on its own
                lab = {'index-extreme-wrong': wh, 'unindexed-index-max': 'INDEX-MAX', 'unindexed-index-min': 'INDEX-MIN',
                       'direction-wrong': 'DIRECTION', 'direction-for-non-monotone': 'DIRECTION'}.get(k, 'SPACING')
                cur = fo.attrs.get(lab)
                curv = cur.values[0] if cur is not None and cur.values else None
                fv = (first_vals or {}).get(lab)
                stale = first_vals is not None and curv is not None and (curv == fv or (
                    isinstance(curv, float) and isinstance(fv, float) and math.isnan(curv) and math.isnan(fv)))
                if stale:
                    viol.append(Violation('second-write/stale-value-derived-at-first-write', f"{lab}: {d}"))
                    continue
                viol.append(Violation(f"second-write/{k}/{wh}", d))
            else:
                viol.append(Violation(f"{k}/{wh}", d))
        return Result(viol, labels, nt, 'written',
                      sample={'dtype': code, 'pattern': pattern, 'rows': nrows, 'indexed': indexed,
                              'second': bool(second)})


PROP = C13()
