"""C04 - Every explicitly formatted record decodes under the RP66 component grammar."""
from hypothesis import strategies as st

from vf.core import Property, Result, Violation
from vf.spec.strategies import Profile, file_specs
from vf.spec.expect import Expectation
from vf.spec import compare, model
from vf.props import specrun
from vf.props.e2e import outcome_label, ALL_META

STRUCTURAL = ('attr-count', 'attr-assigned-but-absent', 'attr-unassigned-but-present', 'attr-empty-list-has-values',
              'attr-code', 'label-missing-in-template', 'object-extra', 'object-missing', 'object-name', 'set-missing',
              'set-duplicate', 'set-extra')


def strategy(must_kind=None):
    base = dict(must_kind=must_kind, vrl=[128, 512, 8192], max_frames=2, max_channels=3, max_rows=4, max_width=3,
                meta_kinds=ALL_META + ('no_format',), attr_routes=('kw', 'dict', 'setup', 'later'), units=True,
                counts_over_127=True, empty_lists=True, full_attrs=True, long_text=1000, hdr_variants=True)
    few = Profile(max_meta=6, **base)
    many = Profile(max_meta=14, name_pool=['A', 'B', 'C1', 'LONGER-NAME'], named_sets=True,
                   set_names_per_type_differ=True, **base)
    return st.one_of(file_specs(few), file_specs(many))


class C04(Property):
    id = 'C04'
    number = 4
    technique = ("Hypothesis-generated specifications over all object types, attribute subsets and multiplicities; "
                 "oracle: independent strict parser of the RP66 component grammar (set / template / objects / "
                 "attributes, count vs. number of values, defined codes, no byte left) plus the per-object component "
                 "inventory expected from the specification")
    rule = ("cases: all 22 object types (21 add_* kinds + file header), random attribute subsets, multiplicities "
            "(unset, scalar, empty list, 1, 2..300 values, nested lists), units, named/unnamed sets, 1-14 objects; "
            "non-trivial = a set with >= 2 objects, or an attribute with count != 1, or an absent attribute between "
            "present ones, or units")

    def searches(self, ctx):
        n = 3200 if ctx.tier == 'quick' else 40000
        from vf.core import stratified
        # half of the budget in one stratum per object type (every set type's template and attributes are reached
        # whatever the spread of the drawn kinds)
        return [('eflr', strategy(), (n // 2) // ctx.nshards)] + \
            stratified('type', strategy, ALL_META + ('no_format',), n // 2, ctx)

    def run(self, spec, ctx):
        r, dec, ferr = specrun.write_and_decode(spec, ctx)
        labels = []
        if r['outcome'] != 'written':
            return Result([], labels, False, outcome_label(r))
        if ferr is not None:
            return Result([specrun.fmt_violation(ferr, 'grammar')], labels, False, 'written')
        exp = Expectation(spec)
        viol = []
        nt = False
        for i, dlf in enumerate(dec.logical_files):
            for ri, s in dlf.sets:
                if len(s.objects) >= 2:
                    nt = True
                    labels.append('set>=2objects')
                for o in s.objects:
                    seen_present_after_absent = False
                    absent_seen = False
                    for t in s.template:
                        a = o.attrs[t.label]
                        if a.absent or a.values is None:
                            absent_seen = True
                        else:
                            if absent_seen:
                                seen_present_after_absent = True
                            if a.count != 1:
                                nt = True
                                labels.append('count!=1')
                            if a.count > 127:
                                labels.append('count>127')
                            if a.units:
                                nt = True
                    if seen_present_after_absent:
                        nt = True
            opmap, probs = compare.map_objects(dlf, exp, i)
            probs = probs + compare.check_metadata(dlf, exp, i, opmap)
            for k, w, d in probs:
                if k in STRUCTURAL:
                    viol.append(Violation(f"{k}/{w}", d))
        if any(isinstance(a.get('v'), list) and not model.flatten(a['v']) for lf in spec['lfs'] for op in lf['ops']
               for a in (op.get('attrs') or {}).values()):
            labels.append('empty-list-assigned')
        labels = sorted(set(labels))
        return Result(viol, labels, nt, 'written',
                      sample={'sets': [(s.type, s.name, len(s.objects)) for dlf in dec.logical_files
                                       for _, s in dlf.sets][:12]})


PROP = C04()
