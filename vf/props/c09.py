"""C09 - Each logical file has the mandated order: header, origin, sets, then data."""
from hypothesis import strategies as st

from vf.core import Property, Result, Violation
from vf.spec.strategies import Profile, file_specs
from vf.spec.expect import Expectation
from vf.spec import compare
from vf.props import specrun
from vf.props.e2e import outcome_label, ALL_META


@st.composite
def strategy(draw, later=None):
    spec = draw(base_strategy())
    if later or (later is None and draw(st.integers(0, 7)) == 0):
        # the header id is changed after everything was added: with the defining origin's FILE-ID brought in line the
        # file must carry the new id in both places; without, the write has to be refused
        later = later or draw(st.sampled_from(['sync', 'no-sync']))
        lf = spec['lfs'][draw(st.integers(0, len(spec['lfs']) - 1))]
        lf.setdefault('hdr', {})['id_later'] = draw(st.sampled_from(['FINAL-DELIVERY', 'X', 'N' * 65, 'A B']))
        lf['hdr']['id_later_sync'] = later == 'sync'
        spec['hdr_later'] = later
    return spec


def base_strategy():
    base = dict(vrl=[256, 8192], max_frames=2, max_channels=3, max_rows=3, max_width=2, meta_kinds=ALL_META,
                max_meta=6, units=False, max_origins=3, origin_position=('first', 'middle', 'last'), shuffle=True,
                noformat=2, nf_payload_max=20, hdr_variants=True, named_sets=True, origin_sets_differ=True)
    one = Profile(**base)
    multi = Profile(max_lfs=3, interleave=True, **base)
    unpinned = Profile(pin_origin=False, **base)
    return st.one_of(file_specs(one), file_specs(multi), file_specs(one), file_specs(unpinned))


def check_order(dlf, exp, i, opmap):
    out = []
    if not dlf.sets:
        return [('no-sets', 'lf', 'logical file without sets')]
    # record 0: FILE-HEADER with one object and the two justified fields
    first = dlf.records[0]
    ri0, fh = dlf.sets[0]
    if not first.is_eflr or fh.type != 'FILE-HEADER':
        out.append(('first-record-not-header', 'header', f"first record of logical file {i} is {fh.type!r}"))
        return out
    if len(fh.objects) != 1:
        out.append(('header-object-count', 'header', f"FILE-HEADER holds {len(fh.objects)} objects"))
    ho = fh.objects[0]
    seq = ho.attrs.get('SEQUENCE-NUMBER')
    want_seq = str(exp.header_seq(i)).rjust(10)
    if seq is None or seq.values != [want_seq]:
        out.append(('header-sequence-number', 'header', f"SEQUENCE-NUMBER {seq.values if seq else None!r}, expected "
                                                        f"{want_seq!r}"))
    hid = ho.attrs.get('ID')
    want_id = exp.header_id(i).ljust(65)
    if hid is None or hid.values != [want_id]:
        out.append(('header-id', 'header', f"ID {hid.values if hid else None!r}, expected {want_id!r}"))
    if sorted(t.label for t in fh.template) != ['ID', 'SEQUENCE-NUMBER']:
        out.append(('header-template', 'header', f"{[t.label for t in fh.template]}"))
    # origin sets: contiguous, immediately after the header
    types = [s.type for _, s in dlf.sets]
    k = 1
    while k < len(types) and types[k] == 'ORIGIN':
        k += 1
    if k == 1:
        out.append(('origin-not-after-header', 'origin', f"set after the header is "
                                                         f"{types[1] if len(types) > 1 else None!r}"))
    if 'ORIGIN' in types[k:]:
        out.append(('origin-sets-not-contiguous', 'origin', f"set order {types[:12]}"))
    # EFLR records of this logical file must be exactly its sets, header first
    if k > 1:
        o0 = dlf.sets[1][1].objects[0]
        first_origin_op = next(j for j in exp.lfs[i]['order'] if j in exp.lfs[i]['objs']
                               and exp.lfs[i]['objs'][j].kind == 'origin')
        tgt = opmap.get(first_origin_op)
        if tgt is None or tgt[0] is not o0:
            out.append(('first-origin-object-not-defining', 'origin',
                        f"first ORIGIN object is {o0.name}, the first origin added was "
                        f"{exp.lfs[i]['objs'][first_origin_op].name!r}"))
        fid = o0.attrs.get('FILE-ID')
        if fid is None or fid.values is None or [v.rstrip(' ') for v in fid.values] != [exp.header_id(i).rstrip(' ')]:
            out.append(('defining-origin-file-id', 'origin', f"FILE-ID {fid.values if fid else None!r} vs header id "
                                                             f"{exp.header_id(i)!r}"))
        fsn = o0.attrs.get('FILE-SET-NUMBER')
        if fsn is None or fsn.values is None or len(fsn.values) != 1:
            out.append(('defining-origin-file-set-number', 'origin', "FILE-SET-NUMBER absent"))
    # (type, name) at most once
    seen = set()
    for _, s in dlf.sets:
        key = (s.type, s.name)
        if key in seen:
            out.append(('set-repeated', s.type, f"set {key} appears twice"))
        seen.add(key)
    return out


class C09(Property):
    id = 'C09'
    number = 9
    technique = ("Hypothesis-generated specifications with every order of add_* calls (origin first/middle/last, several "
                 "origins and origin sets, named sets, 1-3 interleaved logical files); validity predicate on the "
                 "sequence of reassembled records of the file")
    rule = ("cases: shuffled call orders subject only to 'target before referrer', 1-3 origins in one or several ORIGIN "
            "sets, named sets, 1-3 logical files with distinct set names, header by keywords or FileHeaderItem with id "
            "length 0..65 and sequence numbers up to 10 digits; non-trivial = origin not the first call, or >= 2 "
            "origins, or a named set, or >= 2 logical files")

    def searches(self, ctx):
        n = 3200 if ctx.tier == 'quick' else 40000
        from vf.core import stratified
        return [('orders', strategy(), n // ctx.nshards)] + \
            stratified('header-id-changed-later', lambda k: strategy(k), ['sync', 'no-sync'], n // 10, ctx)

    def run(self, spec, ctx):
        spec = dict(spec)
        later = spec.pop('hdr_later', None)
        r, dec, ferr = specrun.write_and_decode(spec, ctx)
        ops0 = spec['lfs'][0]['ops']
        first_or = next((k for k, op in enumerate(ops0) if op['t'] == 'origin'), 0)
        n_or = max(sum(1 for op in lf['ops'] if op['t'] == 'origin') for lf in spec['lfs'])
        named = any(op.get('set') for lf in spec['lfs'] for op in lf['ops'])
        labels = [l for l, f in (('origin-not-first', first_or > 0), ('origins>=2', n_or >= 2), ('named-set', named),
                                 ('lfs>=2', len(spec['lfs']) >= 2)) if f]
        nt = bool(labels)
        if later:
            labels.append('header-id-changed-later:' + later)
            nt = True
            if later == 'sync' and r['outcome'] != 'written':
                # nothing is wrong with this specification (the same one with the id given up front is written)
                tn, site = __import__('vf.dw', fromlist=['x']).exc_site(r['exc'])
                return Result([Violation(f"consistent-late-header-id-refused/{tn}@{site}", str(r['exc'])[:300])],
                              labels, nt, outcome_label(r))
        if r['outcome'] != 'written':
            return Result([], labels, False, outcome_label(r))
        if ferr is not None:
            k = 'definition-after-use' if 'unresolved' in ferr.kind else 'undecodable'
            return Result([Violation(f"{k}/{ferr.kind}", str(ferr))], labels, nt, 'written')
        viol = []
        if len(dec.logical_files) != len(spec['lfs']):
            viol.append(Violation('logical-file-count/lf', f"file has {len(dec.logical_files)} logical files, "
                                                           f"specification {len(spec['lfs'])}"))
        exp = Expectation(spec)
        for i, dlf in enumerate(dec.logical_files[:len(spec['lfs'])]):
            opmap, probs = compare.map_objects(dlf, exp, i)
            probs = [p for p in probs if p[0].startswith('set-') or p[0].startswith('object-')]
            probs += check_order(dlf, exp, i, opmap)
            for k, w, d in probs:
                viol.append(Violation(f"{k}/{w}", d))
        return Result(viol, labels, nt, 'written',
                      sample={'set_order': [[s.type for _, s in dlf.sets] for dlf in dec.logical_files][:3]})


PROP = C09()
