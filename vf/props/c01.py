"""C01 - Physical layout: label, visible records and segments are well-formed."""
from vf.core import Property, Result, Violation
from vf import synth
from vf.props import synthgen


def synth_nontrivial(vrs, case):
    cap = case['vrl'] - 8
    multi = any(s.succ for vr in vrs for s in vr.segments)
    padded = any(s.pad for vr in vrs for s in vr.segments)
    boundary = any(synth.length_class(r['L'], cap) in ('exact-fill', 'short-remainder', 'near-fill')
                   for r in case['recs'])
    return multi or padded or boundary


class C01(Property):
    id = 'C01'
    number = 1
    fuzz_targets = {'fuzz_segments': 30000}      # atheris campaign in the thorough tier (crashes are replayed through run())
    technique = ("generated-input search (bounded-exhaustive (vrl, L) window + Hypothesis record sequences and "
                 "file specifications) against an independent strict RP66 V1 framing parser")
    rule = ("cases: synthetic record sequences fed to DLISWriter (enumerated (vrl, L) window, then Hypothesis "
            "sequences of 1-8 records) and end-to-end file specifications through DLISFile.write; non-trivial = the "
            "file has a record with >= 2 segments, or a padded segment, or a body length within 11 bytes of a "
            "multiple of the segment capacity; distinct by case digest")
    assumptions = ("the independent reader vf/rp66 implements RP66 V1 ch. 2 correctly (cross-checked against dlisio "
                   "in the reader self-test)",
                   "a write that raises gives no verdict here (C15 / C12 judge it)")

    def enumerate(self, ctx):
        yield from synthgen.enumerate_synth(ctx)
        # a storage unit without any logical file: the label alone, no visible record (zero is a whole number)
        k = 0
        for vrl in (20, 256, 8192, 16384):
            for ocs in (None, vrl, vrl + 6, 4096, 65536):
                for seq, ident in ((1, None), (0, 'LABEL ONLY'), (9999, 'x' * 60)):
                    k += 1
                    if k % ctx.nshards == ctx.shard:
                        yield {'kind': 'spec', 'sul': {'vrl': vrl, 'seq': seq, 'id': ident}, 'lfs': [],
                               'write': {'ocs': ocs if ocs is None or ocs >= vrl else vrl}}

    def enumerated_exhaustive_claim(self, tier):
        return True

    def exhaustive_scope(self, tier):
        return synthgen.exhaustive_scope(tier) + '; plus 60 storage units without any logical file (label only)'

    def searches(self, ctx):
        n = 6000 if ctx.tier == 'quick' else 60000
        out = [('synth-sequences', synthgen.synth_cases(), n // ctx.nshards)]
        try:
            from vf.props import e2e
            ne = 1600 if ctx.tier == 'quick' else 24000
            out.append(('end-to-end', e2e.layout_specs(), ne // ctx.nshards))
        except ImportError:
            pass
        return out

    def run(self, case, ctx):
        if case.get('kind') == 'spec':
            from vf.props import e2e
            return e2e.run_c01(case, ctx)
        r = synth.run_synth(case, ctx.path())
        cap = case['vrl'] - 8
        labels = ['synth', 'vrl<32' if case['vrl'] < 32 else 'vrl>=32']
        labels += ['len:' + synth.length_class(x['L'], cap) for x in case['recs']]
        if r['outcome'] != 'written':
            return Result([], labels, False, r['outcome'] + ':' + type(r['exc']).__name__)
        problems, vrs = synth.check_layout(r['buf'], case['vrl'], case.get('sul') or {})
        cls = '+'.join(sorted({synth.length_class(x['L'], cap) for x in case['recs']}))
        viol = [Violation(f"layout/{k}/{'vrl<32' if case['vrl'] < 32 else 'vrl>=32'}", f"{d} [{cls}]")
                for k, d in problems]
        nontriv = bool(vrs) and synth_nontrivial(vrs, case)
        if vrs:
            if any(s.succ for vr in vrs for s in vr.segments):
                labels.append('multi-segment-record')
            if any(s.pad for vr in vrs for s in vr.segments):
                labels.append('padded-segment')
        return Result(viol, labels, nontriv, 'written',
                      sample={'vrl': case['vrl'], 'lengths': [x['L'] for x in case['recs']],
                              'segments': [[s.length for s in vr.segments] for vr in (vrs or [])][:12]})


PROP = C01()
