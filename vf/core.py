"""Shared types for the property checks: Violation, Result, Ctx, Property base class, JSON helpers."""
import hashlib
import json
import os


class HarnessError(Exception):
    """Something went wrong in the verification machinery itself (never a property verdict) -> exit 2."""


class Violation:
    __slots__ = ('sig', 'detail')

    def __init__(self, sig, detail=''):
        self.sig = sig          # root-cause signature: "<kind>/<discriminators>"
        self.detail = str(detail)[:600]

    def __repr__(self):
        return f"Violation({self.sig}: {self.detail})"


class Result:
    __slots__ = ('violations', 'labels', 'nontrivial', 'outcome', 'sample')

    def __init__(self, violations=None, labels=None, nontrivial=False, outcome='ok', sample=None):
        self.violations = violations or []
        self.labels = labels or []
        self.nontrivial = nontrivial
        self.outcome = outcome
        self.sample = sample


class Ctx:
    """Per-worker context handed to Property.run."""

    def __init__(self, tier, shard, nshards, seed, scratch, repo):
        self.tier = tier
        self.shard = shard
        self.nshards = nshards
        self.seed = seed
        self.scratch = scratch
        self.repo = repo
        self._n = 0

    def path(self, suffix='.dlis'):
        self._n += 1
        return os.path.join(self.scratch, f"f{self._n % 64}{suffix}")


class Property:
    """Base class; each vf/props/cXX.py defines PROP = Subclass()."""

    id = 'C00'
    number = 0
    technique = ''
    rule = ''
    assumptions = ()

    def enumerate(self, ctx):
        """Yield enumerated cases (JSON-able) for this shard. Default: none."""
        return ()

    def enumerated_exhaustive_claim(self, tier):
        """True if enumerate() covers a finite sub-domain completely in this tier (see exhaustive_scope)."""
        return False

    def exhaustive_scope(self, tier):
        return ''

    def searches(self, ctx):
        """Return [(name, hypothesis strategy, n_examples_for_this_shard)]."""
        return []

    def run(self, case, ctx):
        raise NotImplementedError

    def digest(self, case):
        return case_digest(case)

    def self_check(self, merged, tier):
        """Return a list of harness problems found in the merged statistics (e.g. a class never generated)."""
        return []


def stratified(prefix, factory, strata, n_total, ctx, share=4):
    """Searches [(name, strategy, n)] giving every stratum its own Hypothesis run.

    A categorical choice drawn with sampled_from inside one big composite is served very unevenly by Hypothesis'
    mutation-based generation (measured: 5 vs 39 cases for two values of one parameter in 4000 examples), so a class that
    matters must not depend on that. Every stratum is searched by 1/share of the shards (runs of a handful of examples
    would spend much of their budget on the minimal first example, which is the same in every shard)."""
    strata = list(strata)
    parts = max(1, ctx.nshards // share)
    per = max(4, n_total // max(1, len(strata)) // parts)
    return [(f"{prefix}:{s}", factory(s), per) for i, s in enumerate(strata)
            if ctx.nshards < share or (ctx.shard - i) % share == 0]


def canon(case):
    return json.dumps(case, sort_keys=True, separators=(',', ':'), default=str)


def case_digest(case):
    return hashlib.blake2b(canon(case).encode(), digest_size=8).hexdigest()


def sig_slug(sig):
    keep = ''.join(c if c.isalnum() or c in '-_.' else '_' for c in sig)[:60]
    return keep + '-' + hashlib.blake2b(sig.encode(), digest_size=4).hexdigest()


def compact(obj, limit=400):
    s = canon(obj)
    if len(s) <= limit:
        return obj
    return {'truncated_json': s[:limit] + '...', 'json_length': len(s)}
