#!/usr/bin/env python3
"""atheris target (run by the thorough tiers of C01, C02 and C15 and by tools/fuzz.sh): bytes -> (vrl, records) -> real writer -> strict
framing parse + lossless reassembly.  The oracle is inside the target; a failing input is saved as a JSON replay in the
same format as the C02 check, so `./check C02 --replay <file>` reproduces it without libFuzzer.

usage: PYTHONPATH=/repo/src:/verif:/verif/.deps python vf/fuzz/fuzz_segments.py -runs=200000 -seed=1 [corpus dir]
"""
import json
import os
import sys

import atheris

with atheris.instrument_imports(include=['dliswriter']):
    from dliswriter.file.writer import DLISWriter  # noqa

from vf import synth  # noqa

OUT = os.environ.get('FUZZ_OUT', '/tmp/verif-fuzz')
PATH = os.path.join(OUT, f'fuzz-{os.getpid()}.dlis')


def decode(data):
    fdp = atheris.FuzzedDataProvider(data)
    vrl = 2 * fdp.ConsumeIntInRange(10, 8192) if fdp.ConsumeBool() else 2 * fdp.ConsumeIntInRange(10, 80)
    cap = vrl - 8
    recs = []
    for _ in range(fdp.ConsumeIntInRange(1, 5)):
        mode = fdp.ConsumeIntInRange(0, 3)
        if mode == 0:
            L = fdp.ConsumeIntInRange(1, 40)
        elif mode == 1:
            L = max(1, fdp.ConsumeIntInRange(1, 4) * cap + fdp.ConsumeIntInRange(-14, 14))
        else:
            L = fdp.ConsumeIntInRange(1, max(2, 4 * cap))
        recs.append({'e': int(fdp.ConsumeBool()), 't': fdp.ConsumeIntInRange(0, 255), 'L': L,
                     'a': fdp.ConsumeIntInRange(0, 127) * 2 + 1, 'b': fdp.ConsumeIntInRange(0, 255),
                     'tail': fdp.ConsumeBytes(fdp.ConsumeIntInRange(0, 4)).hex()})
    case = {'kind': 'synth', 'vrl': vrl, 'recs': recs}
    if fdp.ConsumeBool():
        case['ocs'] = vrl + fdp.ConsumeIntInRange(0, 300)
    return case


def one_input(data):
    case = decode(data)
    r = synth.run_synth(case, PATH)
    problem = None
    if r['outcome'] != 'written':
        problem = ('C15', f"raised: {r['exc']}")
    else:
        probs, vrs = synth.check_layout(r['buf'], case['vrl'], None)
        if probs:
            problem = ('C01', probs[0])
        else:
            probs, _ = synth.check_lossless(vrs, r['given'])
            if probs:
                problem = ('C02', probs[0])
    if problem:
        os.makedirs(OUT, exist_ok=True)
        with open(os.path.join(OUT, f'failing-{problem[0]}.json'), 'w') as f:
            json.dump({'property': problem[0], 'detail': str(problem[1]), 'case': case}, f)
        raise RuntimeError(f"{problem[0]} violated: {problem[1]}")


if __name__ == '__main__':
    os.makedirs(OUT, exist_ok=True)
    fd = os.open(os.devnull, os.O_WRONLY)
    atheris.Setup(sys.argv, one_input)
    atheris.Fuzz()
