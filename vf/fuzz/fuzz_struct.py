#!/usr/bin/env python3
"""atheris target (run by the thorough tier of C06 and by tools/fuzz.sh): bytes -> (code, value) -> write_struct -> independent decoder.

usage: PYTHONPATH=/repo/src:/verif:/verif/.deps python vf/fuzz/fuzz_struct.py -runs=500000 -seed=1
"""
import json
import os
import struct
import sys

import atheris

with atheris.instrument_imports(include=['dliswriter']):
    from dliswriter.utils.internal import struct_writer  # noqa

from vf.core import Ctx  # noqa
from vf.props.c06 import PROP, INT_RANGES  # noqa

OUT = os.environ.get('FUZZ_OUT', '/tmp/verif-fuzz')
CTX = Ctx('thorough', 0, 1, 0, OUT, os.environ.get('VERIF_REPO', '/repo'))


def decode(data):
    fdp = atheris.FuzzedDataProvider(data)
    kind = fdp.ConsumeIntInRange(0, 6)
    if kind == 0:
        code = fdp.PickValueInList(sorted(INT_RANGES))
        lo, hi = INT_RANGES[code]
        return {'code': code, 'v': fdp.ConsumeIntInRange(lo - 1000, hi + 1000)}
    if kind == 1:
        return {'code': fdp.PickValueInList(['FDOUBL', 'FSINGL']), 'bits': fdp.ConsumeBytes(8).ljust(8, b'\0').hex()}
    if kind in (2, 3):
        return {'code': 'IDENT' if kind == 2 else 'ASCII',
                'text': {'n': fdp.ConsumeIntInRange(0, 400 if kind == 2 else 20000), 'a': fdp.ConsumeIntInRange(1, 94),
                         'b': fdp.ConsumeIntInRange(0, 94)}}
    if kind == 4:
        return {'code': 'STATUS', 'v': fdp.ConsumeIntInRange(-2, 300)}
    c = {'code': 'OBNAME' if kind == 5 else 'OBJREF', 'o': fdp.ConsumeIntInRange(-2, 2 ** 30 + 2),
         'c': fdp.ConsumeIntInRange(-1, 257),
         'text': {'n': fdp.ConsumeIntInRange(0, 300), 'a': fdp.ConsumeIntInRange(1, 94), 'b': fdp.ConsumeIntInRange(0, 94)}}
    if kind == 6:
        c['stype'] = {'n': fdp.ConsumeIntInRange(1, 300), 'a': fdp.ConsumeIntInRange(1, 94), 'b': 1}
    return c


def one_input(data):
    case = decode(data)
    case['kind'] = 'prim'
    res = PROP.run(case, CTX)
    if res.violations:
        os.makedirs(OUT, exist_ok=True)
        with open(os.path.join(OUT, 'failing-C06.json'), 'w') as f:
            json.dump({'property': 'C06', 'detail': repr(res.violations[0]), 'case': case}, f)
        raise RuntimeError(repr(res.violations[0]))


if __name__ == '__main__':
    os.makedirs(OUT, exist_ok=True)
    atheris.Setup(sys.argv, one_input)
    atheris.Fuzz()
