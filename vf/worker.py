"""One shard of one property check.  Invoked by vf.runner as a subprocess:

    python -m vf.worker Cxx --tier quick --shard 3 --nshards 16 --out DIR [--replay FILE ...]

Writes DIR/shard_<i>.json (statistics, found violations) and DIR/shard_<i>.npy (digests of non-trivial cases).
"""
import argparse
import importlib
import json
import os
import shutil
import sys
import tempfile
import time
import traceback

import numpy as np


def silence_stderr(logpath):
    """progressbar2 grabs sys.stderr at import and draws a bar per write; send fd 2 to a log file."""
    fd = os.open(logpath, os.O_WRONLY | os.O_CREAT | os.O_APPEND, 0o644)
    os.dup2(fd, 2)
    os.close(fd)


class Collector:
    def __init__(self, prop, ctx, known_sigs):
        self.prop = prop
        self.ctx = ctx
        self.known = known_sigs
        self.evaluations = 0
        self.digests = set()
        self.labels = {}
        self.outcomes = {}
        self.samples = []
        self.known_hits = {}
        self.found = {}           # sig -> {'case':..., 'detail':..., 'count': n}
        self.harness_errors = []
        self.abort = False
        self.target_sig = None    # while Hypothesis shrinks one signature
        self.last_failing = None
        self.per_search = {}

    def handle(self, case, source):
        """Run one case; update statistics; return the list of *new* signatures (not known, not yet recorded)."""
        if self.abort:
            return []
        try:
            res = self.prop.run(case, self.ctx)
        except Exception:
            self.harness_errors.append({'where': source, 'case': case, 'traceback': traceback.format_exc()[-3000:]})
            self.abort = True
            return []
        self.evaluations += 1
        self.per_search[source] = self.per_search.get(source, 0) + 1
        self.outcomes[res.outcome] = self.outcomes.get(res.outcome, 0) + 1
        for lab in res.labels:
            self.labels[lab] = self.labels.get(lab, 0) + 1
        if res.nontrivial:
            d = int(self.prop.digest(case), 16)
            if d not in self.digests:
                self.digests.add(d)
                if len(self.samples) < 4:
                    self.samples.append(res.sample if res.sample is not None else case)
        new = []
        sigs = set()
        for v in res.violations:
            if v.sig in sigs:
                continue
            sigs.add(v.sig)
            if v.sig in self.known:
                self.known_hits[v.sig] = self.known_hits.get(v.sig, 0) + 1
            elif v.sig in self.found:
                self.found[v.sig]['count'] += 1
            else:
                new.append(v)
        return new

    def record(self, v, case, source):
        self.found[v.sig] = {'case': case, 'detail': v.detail, 'count': 1, 'source': source}


def run_enumerated(col):
    for case in col.prop.enumerate(col.ctx):
        if col.abort:
            break
        for v in col.handle(case, 'enumerated'):
            col.record(v, case, 'enumerated')


def structural_pass(col, case, sig):
    """Bounded structural minimisation of a spec case after Hypothesis' own shrinking (same signature required)."""
    from vf.minimize import minimize

    def run(c):
        res = col.prop.run(c, col.ctx)
        col.evaluations += 1
        col.per_search['minimise'] = col.per_search.get('minimise', 0) + 1
        return {v.sig for v in res.violations}
    try:
        smaller, _ = minimize(case, sig, run, budget=150)
        return smaller
    except Exception:
        return case


def run_search(col, name, strategy, n_examples, base_seed, shrink_seconds):
    from hypothesis import given, settings, seed, HealthCheck, Phase
    import hypothesis.internal.conjecture.engine as eng
    eng.MAX_SHRINKING_SECONDS = shrink_seconds

    class Found(Exception):
        pass

    remaining = n_examples
    rounds = 0
    while remaining > 0 and rounds < 6 and not col.abort:
        rounds += 1
        col.target_sig = None
        col.last_failing = None
        before = col.evaluations
        state = {'generated': 0}

        def body(case):
            if col.abort:
                return
            fail = None
            if col.target_sig is None:
                state['generated'] += 1
                new = col.handle(case, name)
                if new:
                    fail = new[0]
                    col.target_sig = fail.sig
            else:
                # shrinking one signature: fail iff that same signature is still produced
                try:
                    res = col.prop.run(case, col.ctx)
                except Exception:
                    return      # a harness problem on a shrunk case is "not the same failure"
                col.evaluations += 1
                col.per_search[name + ':shrink'] = col.per_search.get(name + ':shrink', 0) + 1
                for v in res.violations:
                    if v.sig == col.target_sig:
                        fail = v
                        break
            if fail is not None:
                # one raise site for both phases: Hypothesis identifies a failure by exception type and location
                col.last_failing = (case, fail)
                raise Found(fail.sig)

        test = given(strategy)(body)
        test = seed(base_seed + rounds * 7919)(test)
        test = settings(max_examples=remaining, database=None, deadline=None, derandomize=False,
                        report_multiple_bugs=False, print_blob=False,
                        suppress_health_check=list(HealthCheck),
                        phases=[Phase.generate, Phase.shrink])(test)
        try:
            test()
        except Found:
            case, v = col.last_failing
            case = structural_pass(col, case, v.sig)
            col.record(v, case, name)
        except Exception as exc:   # Flaky, Unsatisfiable, ... -> harness problem
            tn = type(exc).__name__
            if col.target_sig is not None and col.last_failing is not None and tn in ('Flaky', 'FlakyFailure'):
                case, v = col.last_failing
                case = structural_pass(col, case, v.sig)
                col.record(v, case, name)
                col.found[v.sig]['flaky'] = True
            else:
                col.harness_errors.append({'where': name, 'traceback': traceback.format_exc()[-3000:]})
                col.abort = True
        else:
            remaining = 0
            break
        remaining -= max(state['generated'], 1)
    col.target_sig = None


def main():
    ap = argparse.ArgumentParser()
    ap.add_argument('prop')
    ap.add_argument('--tier', default='quick')
    ap.add_argument('--shard', type=int, default=0)
    ap.add_argument('--nshards', type=int, default=1)
    ap.add_argument('--out', required=True)
    ap.add_argument('--replay', action='append', default=[])
    ap.add_argument('--replay-only', action='store_true')
    ap.add_argument('--known', default='')
    args = ap.parse_args()

    silence_stderr(os.path.join(args.out, f'shard_{args.shard}.stderr'))
    t0 = time.time()
    cov = None
    if os.environ.get('VERIF_COV'):     # developer aid (tools/coverage.sh): which lines of dliswriter do the checks reach
        import coverage
        os.makedirs(os.environ['VERIF_COV'], exist_ok=True)
        cov = coverage.Coverage(data_file=os.path.join(os.environ['VERIF_COV'], f'cov.{args.prop}.{args.shard}'),
                                branch=True, include=[os.path.join(os.environ.get('VERIF_REPO', '/repo'), 'src/dliswriter/*')])
        cov.start()
    from vf.core import Ctx
    mod = importlib.import_module('vf.props.' + args.prop.lower())
    prop = mod.PROP
    seed = int(os.environ.get('VERIF_SEED', '0') or 0)
    base = os.environ.get('VERIF_SCRATCH_BASE') or ('/dev/shm' if os.access('/dev/shm', os.W_OK) else None)
    scratch = tempfile.mkdtemp(prefix=f'verif-{args.prop}-{args.shard}-', dir=base)
    ctx = Ctx(args.tier, args.shard, args.nshards, seed, scratch, os.environ.get('VERIF_REPO', '/repo'))
    known = set(json.loads(args.known)) if args.known else set()
    col = Collector(prop, ctx, known)
    replay_results = []
    try:
        if hasattr(prop, 'setup'):
            prop.setup(ctx)
        for path in args.replay:
            with open(path) as f:
                doc = json.load(f)
            case = doc['case'] if isinstance(doc, dict) and 'case' in doc else doc
            try:
                res = prop.run(case, ctx)
                col.evaluations += 1
                col.per_search['replay'] = col.per_search.get('replay', 0) + 1
                sigs = sorted({v.sig for v in res.violations})
                replay_results.append({'path': path, 'sigs': sigs,
                                       'details': [repr(v) for v in res.violations][:10], 'outcome': res.outcome})
                for v in res.violations:
                    if v.sig in known:
                        col.known_hits[v.sig] = col.known_hits.get(v.sig, 0) + 1
                    elif v.sig not in col.found:
                        col.found[v.sig] = {'case': case, 'detail': v.detail, 'count': 1, 'source': 'replay:' + path}
            except Exception:
                col.harness_errors.append({'where': 'replay:' + path, 'traceback': traceback.format_exc()[-3000:]})
        if not args.replay_only and not col.abort:
            run_enumerated(col)
            shrink_s = 20 if args.tier == 'quick' else 90
            for k, (name, strategy, n) in enumerate(prop.searches(ctx)):
                if n <= 0:
                    continue
                base_seed = seed * 1000003 + prop.number * 1009 + args.shard + k * 104729
                run_search(col, name, strategy, n, base_seed, shrink_s)
    except Exception:
        col.harness_errors.append({'where': 'worker', 'traceback': traceback.format_exc()[-3000:]})
    finally:
        if hasattr(prop, 'teardown'):
            try:
                prop.teardown(ctx)
            except Exception:
                pass
        shutil.rmtree(scratch, ignore_errors=True)

    if cov is not None:
        cov.stop()
        cov.save()
    np.save(os.path.join(args.out, f'shard_{args.shard}.npy'), np.array(sorted(col.digests), dtype=np.uint64))
    out = {
        'shard': args.shard, 'evaluations': col.evaluations, 'labels': col.labels, 'outcomes': col.outcomes,
        'samples': col.samples, 'known_hits': col.known_hits, 'found': col.found,
        'harness_errors': col.harness_errors, 'per_search': col.per_search, 'replays': replay_results,
        'wall_s': round(time.time() - t0, 3),
        'exhaustive': not col.abort,
        'extra': getattr(prop, 'extra_stats', lambda: {})(),
    }
    with open(os.path.join(args.out, f'shard_{args.shard}.json'), 'w') as f:
        json.dump(out, f, default=str)


if __name__ == '__main__':
    main()
